use std::{env, fs, path::PathBuf};

// Writes `$OUT_DIR/gram_mods.rs`, a list of `#[path] mod` items that pull gram's own source files
// (from GRAM_REPO, default /repo) into this crate's root, so that gram's `crate::term::..` paths
// resolve unchanged. rustc's dep-info lists the included files, so cargo rebuilds on any edit.
fn main() {
    let repo = env::var("GRAM_REPO").unwrap_or_else(|_| "/repo".to_owned());
    println!("cargo:rerun-if-env-changed=GRAM_REPO");
    println!("cargo:rerun-if-changed=build.rs");
    let mods = [
        "de_bruijn", "equality", "error", "evaluator", "format", "normalizer", "parser", "term",
        "token", "tokenizer", "type_checker", "unifier",
    ];
    let mut out = String::new();
    for m in mods {
        let p = format!("{repo}/src/{m}.rs");
        println!("cargo:rerun-if-changed={p}");
        out.push_str(&format!("#[path = \"{p}\"] pub mod {m};\n"));
    }
    out.push_str(&format!("pub const GRAM_REPO: &str = \"{repo}\";\n"));
    let dest = PathBuf::from(env::var("OUT_DIR").unwrap()).join("gram_mods.rs");
    fs::write(dest, out).unwrap();
}
