#![no_main]
// C10 oracle on coverage-guided inputs: the bytes are decoded (as a choice sequence) into a token
// list and a layout; every layout must tokenize to the same stream and parse to the same term.
use libfuzzer_sys::fuzz_target;

fuzz_target!(|data: &[u8]| {
    let choices: Vec<u16> = data.chunks(2).map(|c| u16::from(c[0]) << 8 | u16::from(*c.get(1).unwrap_or(&0))).collect();
    if let Err(f) = gv::checks::c10::fuzz_one(&choices) {
        panic!("C10 violation: {} on {}", f.msg, f.input);
    }
});
