#![no_main]
// C09 oracle (reference lexer differential + partition invariants) on coverage-guided inputs.
use libfuzzer_sys::fuzz_target;

fuzz_target!(|data: &[u8]| {
    let text = String::from_utf8_lossy(data);
    if let Err(f) = gv::checks::c09::check_text(&text) {
        panic!("C09 violation: {} on {}", f.msg, f.input);
    }
});
