#![no_main]
// C14 oracle on coverage-guided bytes: tokenize and parse never panic and return Ok or a
// non-empty list of [Error] diagnostics (the type checker is not run here: it may diverge).
use libfuzzer_sys::fuzz_target;

fuzz_target!(|data: &[u8]| {
    let text = String::from_utf8_lossy(data);
    if let Err(f) = gv::checks::c14::pipeline(None, &text, false) {
        panic!("C14 violation: {} on {}", f.msg, f.input);
    }
});
