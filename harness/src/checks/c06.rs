//! C06 — Definitional equality used by the checker agrees with evaluation.

use crate::gens::mutate;
use crate::gens::prog::{self, ProgCfg};
use crate::normalizer::normalize_weak_head;
use crate::pipe::{self, Eval, Front};
use crate::refs::core::{self, Names, Nbe};
use crate::runner::{CheckDef, Ctx, Failure, Outcome, Part, ReplayInput, Tier, catch};
use crate::sast::{self, S};
use crate::term::Term;
use crate::typed::{self, RefEval, RefType, RefValue};
use crate::unifier::unify;
use crate::util::Ch;

fn accepted<R>(text: &str, f: impl FnOnce(&Term, &Term) -> R) -> Result<Option<R>, String> {
    pipe::with_front(text, |front| match front {
        Front::Accepted { elaborated, ty, .. } => Some(f(elaborated, ty)),
        _ => None,
    })
}

// (a) normaliser vs evaluator ------------------------------------------------------------------

fn normaliser_case(ctx: &Ctx, ch: &mut Ch) -> Outcome {
    let cfg = ProgCfg { forward_aliases: false, ..ProgCfg::default() };
    let kind = ch.pick(2);
    let fuel = 2 + ch.pick(5);
    let Some(p) = prog::gen_program(ch, cfg, kind, fuel) else {
        ctx.class("generator: gave up");
        return Ok(());
    };
    if p.text.len() > 4000 {
        return Ok(());
    }
    let (_, k, verdict) = typed::ref_infer(&p.s, true);
    let (Some(k), RefType::Ok(_)) = (k, verdict) else {
        ctx.class("generator: not accepted by the reference checker (discarded)");
        return Ok(());
    };
    // Domain: evaluation terminates with a literal (by the reference interpreter).
    let (want, stats) = typed::ref_eval(&k, 2_000_000);
    if !matches!(want, RefEval::Value(RefValue::Int(_) | RefValue::Bool(_))) {
        ctx.class("outside (a)'s domain: evaluation does not end in a literal");
        return Ok(());
    }
    // Normal-order normalisation re-evaluates duplicated arguments, so it can be exponentially
    // slower than call-by-value evaluation; long evaluations are left out (bounded by work, not time).
    if stats.steps > 4000 {
        ctx.class("left out: the reference evaluation takes more than 4000 steps");
        return Ok(());
    }
    let text = &p.text;
    ctx.announce(false, None, text);
    let budget = crate::checks::c02::step_budget(ctx.tier);
    let r = accepted(text, |elab, _| -> Result<Option<u64>, Failure> {
        let Eval::Value(v, steps) = pipe::run_steps(elab, budget).map_err(|p| Failure::new(p, text.clone()).with_sig("panic"))? else {
            return Ok(None);
        };
        let n = catch(|| normalize_weak_head(elab, &mut vec![])).map_err(|p| Failure::new(format!("normalize_weak_head panicked: {p}"), text.clone()).with_sig("panic"))?;
        if typed::gram_value(&n) != typed::gram_value(&v) || typed::gram_value(&v).is_none() {
            return Err(Failure::new(format!("running yields `{v}`, normalising the way the checker does yields `{n}`"), text.clone()));
        }
        Ok(Some(steps))
    })
    .map_err(|p| Failure::new(p, text.clone()).with_sig("panic"))?;
    match r {
        None => ctx.class("rejected by gram (C05's concern)"),
        Some(Err(f)) => return Err(f),
        Some(Ok(None)) => ctx.inconclusive("gram's evaluator did not reach a value within the step budget"),
        Some(Ok(Some(steps))) => {
            ctx.class("(a) normaliser and evaluator agree on the literal");
            if steps >= 5 || stats.steps >= 5 {
                ctx.nontrivial(text);
            }
        }
    }
    Ok(())
}

// (b) reflexivity and closure under reduction -----------------------------------------------------

fn reduction_case(ctx: &Ctx, ch: &mut Ch) -> Outcome {
    let cfg = ProgCfg { forward_aliases: false, recursion: ch.chance(1, 2), ..ProgCfg::default() };
    let kind = ch.pick(3);
    let fuel = 2 + ch.pick(4);
    let Some(p) = prog::gen_program(ch, cfg.clone(), kind, fuel) else {
        ctx.class("generator: gave up");
        return Ok(());
    };
    if p.text.len() > 3000 {
        return Ok(());
    }
    let (_, k, verdict) = typed::ref_infer(&p.s, true);
    let (Some(k), RefType::Ok(_)) = (k, verdict) else {
        ctx.class("generator: not accepted by the reference checker (discarded)");
        return Ok(());
    };
    // Keep to programs whose evaluation terminates (so that weak-head normalisation does).
    let (rv, rstats) = typed::ref_eval(&k, 300_000);
    if !matches!(rv, RefEval::Value(_)) {
        ctx.class("outside (b)'s domain: evaluation does not terminate with a value within the fuel");
        return Ok(());
    }
    if rstats.steps > 4000 {
        ctx.class("left out: the reference evaluation takes more than 4000 steps");
        return Ok(());
    }
    let text = p.text.clone();
    // Reference reducts: 1-3 contractions at random redex positions (anywhere, also under binders).
    let mut reduct = p.s.clone();
    let mut kinds = vec![];
    for _ in 0..1 + ch.pick(3) {
        let n = mutate::count_redexes(&reduct);
        if n == 0 {
            break;
        }
        let mut k = ch.pick(n);
        let mut kind = "";
        reduct = mutate::reduce_nth(&reduct, &mut k, &mut kind);
        kinds.push(kind);
    }
    let reduct = reduct.flatten();
    let reduct_text = sast::print_plain(&reduct);
    let scoped = {
        let mut errs = vec![];
        sast::scope_errors(&reduct, &mut vec![], &mut errs);
        errs.is_empty()
    };
    let use_function_typed = !cfg.recursion || kind < 2;
    ctx.announce(false, None, &format!("{text}   ~>   {reduct_text}"));
    let r = accepted(&text, |elab, _| -> Result<(usize, bool), Failure> {
        let input = text.clone();
        // Reflexivity.
        let refl = catch(|| unify(elab, elab, &mut vec![])).map_err(|p| Failure::new(format!("unify panicked: {p}"), input.clone()).with_sig("panic"))?;
        if !refl {
            return Err(Failure::new("a term is not judged equal to itself", input));
        }
        // Terms of its own evaluation sequence.
        let mut compared = 0;
        if use_function_typed {
            let mut t = elab.clone();
            for i in 0..50 {
                let Some(next) = catch(|| crate::evaluator::step(&t)).map_err(|p| Failure::new(format!("step panicked: {p}"), input.clone()).with_sig("panic"))? else { break };
                t = next;
                if i % 3 == 0 || i < 6 {
                    let (ab, ba) = catch(|| (unify(elab, &t, &mut vec![]), unify(&t, elab, &mut vec![]))).map_err(|p| Failure::new(format!("unify panicked: {p}"), input.clone()).with_sig("panic"))?;
                    if !ab || !ba {
                        return Err(Failure::new(format!("the term and its reduct after {} step(s), `{}`, are judged unequal (unify(t, t') = {ab}, unify(t', t) = {ba})", i + 1, crate::util::truncate(&t.to_string(), 300)), input));
                    }
                    compared += 1;
                }
            }
        }
        // The reference reduct.
        let mut ref_compared = false;
        if scoped && !kinds.is_empty() && use_function_typed {
            // Both terms are checked again in one scope so that they share a lifetime.
            let rr = pipe::with_two_accepted(&text, &reduct_text, |e1, e2| catch(|| (unify(e1, e2, &mut vec![]), unify(e2, e1, &mut vec![]))))
                .map_err(|p| Failure::new(p, input.clone()).with_sig("panic"))?;
            if let Some(rr) = rr {
                let (ab, ba) = rr.map_err(|p| Failure::new(format!("unify panicked: {p}"), input.clone()).with_sig("panic"))?;
                if !ab || !ba {
                    return Err(Failure::new(format!("the term and its reduct by {kinds:?}, `{reduct_text}`, are judged unequal (unify(t, t') = {ab}, unify(t', t) = {ba})"), input));
                }
                ref_compared = true;
            }
        }
        Ok((compared, ref_compared))
    })
    .map_err(|p| Failure::new(p, text.clone()).with_sig("panic"))?;
    match r {
        None => ctx.class("rejected by gram (C05's concern)"),
        Some(Err(f)) => return Err(f),
        Some(Ok((n, refc))) => {
            ctx.class("(b) reflexive and equal to its reducts");
            if refc {
                for k in &kinds {
                    ctx.class(&format!("(b) reference contraction: {k}"));
                }
            }
            if n > 0 || refc {
                ctx.nontrivial(&format!("{text}   ~>   {reduct_text}"));
            }
        }
    }
    Ok(())
}

// (c, d) symmetry and agreement with normal forms ---------------------------------------------------

fn pair_case(ctx: &Ctx, ch: &mut Ch) -> Outcome {
    // No recursion here: comparing two different recursive functions unfolds forever (in gram and
    // in the reference alike).
    let cfg = ProgCfg { forward_aliases: false, recursion: false, risky_division: false, ..ProgCfg::default() };
    let goal: Option<S> = match ch.pick(4) {
        0 => Some(S::Int),
        1 => Some(S::Bool),
        _ => prog::gen_goal_type(ch),
    };
    let Some(goal) = goal else { return Ok(()) };
    let fuel = 1 + ch.pick(4);
    let Some(a) = prog::gen_program_at(ch, cfg.clone(), 0, Some(&goal), fuel) else {
        ctx.class("generator: gave up");
        return Ok(());
    };
    let (b_s, how): (S, &str) = match ch.pick(5) {
        4 => match mutate::swap_variable(&a.s, ch) {
            Some(m) => (m, "one variable replaced by another in scope"),
            None => (a.s.clone(), "identical copy"),
        },
        0 => {
            let mut r = a.s.clone();
            for _ in 0..1 + ch.pick(3) {
                let n = mutate::count_redexes(&r);
                if n == 0 {
                    break;
                }
                let mut k = ch.pick(n);
                let mut kind = "";
                r = mutate::reduce_nth(&r, &mut k, &mut kind);
            }
            (r.flatten(), "reduct of the first")
        }
        1 => {
            // One literal changed somewhere.
            let n = a.s.size();
            let mut k = ch.pick(n);
            let mut changed = false;
            let m = mutate::map_nth(&a.s, &mut k, &mut |x| match x {
                S::Lit(v) => {
                    changed = true;
                    S::Lit(v + 1)
                }
                S::True => {
                    changed = true;
                    S::False
                }
                other => other.clone(),
            });
            (m, if changed { "one literal changed" } else { "identical copy" })
        }
        _ => match { let f2 = 1 + ch.pick(3); prog::gen_program_at(ch, cfg, 0, Some(&goal), f2) } {
            Some(b) => (b.s, "independent term of the same type"),
            None => return Ok(()),
        },
    };
    let (ta, tb) = (a.text.clone(), sast::print_plain(&b_s));
    if ta.len() > 2500 || tb.len() > 2500 {
        return Ok(());
    }
    let mut errs = vec![];
    sast::scope_errors(&b_s, &mut vec![], &mut errs);
    if !errs.is_empty() {
        ctx.class("second term not well scoped after reduction (skipped)");
        return Ok(());
    }
    let input = format!("{ta}   VS   {tb}");
    ctx.announce(false, None, &input);
    let r = pipe::with_two_accepted(&ta, &tb, |ea, eb| -> Result<Option<bool>, Failure> {
        // Reference: equality of normal forms by NbE on the elaborated terms.
        let mut names = Names::default();
        let (Ok(ka), Ok(kb)) = (core::from_gram(ea, &mut vec![], &mut names), core::from_gram(eb, &mut vec![], &mut names)) else {
            return Err(Failure::new("an elaborated term is not well scoped", input.clone()));
        };
        if core::has_hole(&ka) || core::has_hole(&kb) {
            return Ok(None);
        }
        let mut nbe = Nbe::new(300_000);
        let want = (|| {
            let va = nbe.eval(&ka, &None).ok()?;
            let vb = nbe.eval(&kb, &None).ok()?;
            nbe.conv(&va, &vb).ok()
        })();
        let Some(want) = want else { return Ok(None) };
        let (ab, ba) = catch(|| (unify(ea, eb, &mut vec![]), unify(eb, ea, &mut vec![]))).map_err(|p| Failure::new(format!("unify panicked: {p}"), input.clone()).with_sig("panic"))?;
        if ab != ba {
            return Err(Failure::new(format!("unify is not symmetric on hole-free terms: unify(a, b) = {ab}, unify(b, a) = {ba}"), input.clone()));
        }
        if ab != want {
            return Err(Failure::new(format!("unify(a, b) = {ab}, but the normal forms are {}", if want { "equal" } else { "different" }), input.clone()));
        }
        Ok(Some(ab))
    })
    .map_err(|p| Failure::new(p, input.clone()).with_sig("panic"))?;
    match r {
        None => ctx.class("a term of the pair was rejected by gram (skipped)"),
        Some(Err(f)) => return Err(f),
        Some(Ok(None)) => ctx.inconclusive("reference normalisation ran out of fuel or met a hole"),
        Some(Ok(Some(equal))) => {
            ctx.class(&format!("(c,d) {how}: judged {}", if equal { "equal" } else { "unequal" }));
            if ta != tb {
                ctx.nontrivial(&input);
            }
        }
    }
    Ok(())
}

/// Exhaustive small family: under `(x : int) => (y : int) => (b : bool) => (f : int -> int -> int) =>`,
/// every pair of bodies `a OP b` / `c OP d`, `- a` / `- c`, `if b then a else c` / `if b then d else e`,
/// `f a b` / `f c d` with operands from {x, y, 1, 2}: unify must agree with NbE on each pair.
fn operand_pairs(ctx: &Ctx) {
    let atoms = ["x", "y", "1", "2"];
    let prefix = "(x : int) => (y : int) => (b : bool) => (f : int -> int -> int) => ";
    let mut bodies: Vec<String> = vec![];
    for op in ["+", "-", "*", "/", "<", "<=", "==", ">", ">="] {
        for a in atoms {
            for c in atoms {
                bodies.push(format!("{a} {op} {c}"));
            }
        }
    }
    for a in atoms {
        bodies.push(format!("- {a}"));
        for c in atoms {
            bodies.push(format!("if b then {a} else {c}"));
            bodies.push(format!("f {a} {c}"));
        }
    }
    let mut idx = 0u64;
    let mut total = 0u64;
    for (i, a) in bodies.iter().enumerate() {
        for (j, b) in bodies.iter().enumerate() {
            // Same former only (different formers are covered by the generated pairs).
            let key = |s: &String| s.split(' ').nth(if s.starts_with("if") || s.starts_with("f ") || s.starts_with('-') { 0 } else { 1 }).unwrap_or("").to_owned();
            if key(a) != key(b) {
                continue;
            }
            idx += 1;
            if idx % u64::from(ctx.nshards) != u64::from(ctx.shard) {
                continue;
            }
            let _ = (i, j);
            let (ta, tb) = (format!("{prefix}{a}"), format!("{prefix}{b}"));
            let input = format!("{ta}   VS   {tb}");
            total += 1;
            let r = pipe::with_two_accepted(&ta, &tb, |ea, eb| -> Result<bool, Failure> {
                let mut names = Names::default();
                let (Ok(ka), Ok(kb)) = (core::from_gram(ea, &mut vec![], &mut names), core::from_gram(eb, &mut vec![], &mut names)) else {
                    return Err(Failure::new("an elaborated term is not well scoped", input.clone()));
                };
                let mut nbe = Nbe::new(100_000);
                let want = nbe.eval(&ka, &None).and_then(|va| nbe.eval(&kb, &None).and_then(|vb| nbe.conv(&va, &vb))).map_err(|_| Failure::new("reference out of fuel on a tiny term", input.clone()))?;
                let (ab, ba) = catch(|| (unify(ea, eb, &mut vec![]), unify(eb, ea, &mut vec![]))).map_err(|p| Failure::new(format!("unify panicked: {p}"), input.clone()).with_sig("panic"))?;
                if ab != want || ba != want {
                    return Err(Failure::new(format!("unify(a, b) = {ab}, unify(b, a) = {ba}, but the normal forms are {}", if want { "equal" } else { "different" }), input.clone()));
                }
                Ok(want)
            });
            match r {
                Err(p) => ctx.settle(Err(Failure::new(p, input).with_sig("panic"))),
                Ok(None) => {}
                Ok(Some(Err(f))) => {
                    ctx.settle(Err(f));
                    if ctx.peek_violations() >= 6 {
                        return;
                    }
                }
                Ok(Some(Ok(_))) => ctx.nontrivial_enumerated(|| input.clone()),
            }
        }
    }
    ctx.evaluated(total);
    ctx.exhaustive("operand-pairs");
    ctx.note("operand-pairs: every pair of same-former bodies over operands {x, y, 1, 2} under four binders");
}

/// Near-miss pairs: a definition group and the same group with one more definition (or one
/// definition changed), both ending in their last definition — structurally almost the same term.
fn group_pair_case(ctx: &Ctx, ch: &mut Ch) -> Outcome {
    let n = 1 + ch.pick(4);
    let mut defs: Vec<String> = vec![];
    let mut names: Vec<String> = vec![];
    for i in 0..n {
        let name = format!("d{i}");
        let rhs = match ch.pick(4) {
            0 => ch.pick(5).to_string(),
            1 if !names.is_empty() => format!("{} + {}", names[ch.pick(names.len())], ch.pick(3)),
            2 if !names.is_empty() => names[ch.pick(names.len())].clone(),
            _ => format!("{} * 2", ch.pick(4)),
        };
        defs.push(format!("{name} : int = {rhs}"));
        names.push(name);
    }
    let wrap = |body: String, ch_kind: usize| match ch_kind {
        0 => body,
        1 => format!("(p : int -> type) => p ({body})"),
        2 => format!("(q : int) => q + ({body})"),
        _ => format!("((k : int) => k) ({body})"),
    };
    let kind = ch.pick(4);
    let a = format!("{}; {}", defs.join("; "), names.last().unwrap());
    let extra = match ch.pick(3) {
        0 => ch.pick(5).to_string(),
        1 => format!("{} + 1", names[ch.pick(names.len())]),
        _ => names[ch.pick(names.len())].clone(),
    };
    let b = match ch.pick(3) {
        // One more definition, which becomes the result.
        0 => format!("{}; d{n} : int = {extra}; d{n}", defs.join("; ")),
        // One more, unused, definition.
        1 => format!("{}; d{n} : int = {extra}; {}", defs.join("; "), names.last().unwrap()),
        // The last definition changed.
        _ => {
            let mut d2 = defs.clone();
            *d2.last_mut().unwrap() = format!("d{} : int = {extra}", n - 1);
            format!("{}; {}", d2.join("; "), names.last().unwrap())
        }
    };
    let (ta, tb) = (wrap(a, kind), wrap(b, kind));
    let input = format!("{ta}   VS   {tb}");
    let r = pipe::with_two_accepted(&ta, &tb, |ea, eb| -> Result<Option<bool>, Failure> {
        let mut names = Names::default();
        let (Ok(ka), Ok(kb)) = (core::from_gram(ea, &mut vec![], &mut names), core::from_gram(eb, &mut vec![], &mut names)) else {
            return Err(Failure::new("an elaborated term is not well scoped", input.clone()));
        };
        let mut nbe = Nbe::new(100_000);
        let want = (|| {
            let va = nbe.eval(&ka, &None).ok()?;
            let vb = nbe.eval(&kb, &None).ok()?;
            nbe.conv(&va, &vb).ok()
        })();
        let Some(want) = want else { return Ok(None) };
        let (ab, ba) = catch(|| (unify(ea, eb, &mut vec![]), unify(eb, ea, &mut vec![]))).map_err(|p| Failure::new(format!("unify panicked: {p}"), input.clone()).with_sig("panic"))?;
        if ab != ba {
            return Err(Failure::new(format!("unify is not symmetric on hole-free terms: unify(a, b) = {ab}, unify(b, a) = {ba}"), input.clone()));
        }
        if ab != want {
            return Err(Failure::new(format!("unify(a, b) = {ab}, but the normal forms are {}", if want { "equal" } else { "different" }), input.clone()));
        }
        Ok(Some(ab))
    })
    .map_err(|p| Failure::new(p, input.clone()).with_sig("panic"))?;
    match r {
        None => ctx.class("group pair: a term was rejected (skipped)"),
        Some(Err(f)) => return Err(f),
        Some(Ok(None)) => ctx.inconclusive("reference normalisation ran out of fuel"),
        Some(Ok(Some(equal))) => {
            ctx.class(&format!("(c,d) groups differing by one definition: judged {}", if equal { "equal" } else { "unequal" }));
            ctx.nontrivial(&input);
        }
    }
    Ok(())
}

pub fn def(tier: Tier) -> CheckDef {
    let rounds = tier.pick(25, 250);
    CheckDef {
        id: "C06",
        level: "exploration",
        rule: "(a) closed type-directed generated programs of type int / bool whose evaluation ends in a literal (by the reference interpreter): normalize_weak_head of the elaborated term must be the literal gram's `step` loop reaches; (b) closed accepted programs t: unify(t, t) and, in both argument orders, unify(t, t') for terms t' of t's own `step` sequence (first 50 steps, sampled) and for reference reducts obtained by 1-3 contractions (beta, arithmetic / comparison on literals, if on a literal) at random positions, also under binders; (c, d) ordered pairs of closed hole-free well-typed terms of the same generated type (int, bool, function and type-level types; second term = a reduct of the first, the first with one literal changed, or an independent term; and definition groups that differ by one appended or changed definition, bare, under a neutral head and under binders; and, exhaustively, every pair of same-former bodies `a OP c`, `- a`, `if b then a else c`, `f a c` over operands {x, y, 1, 2} under four binders): unify(a, b) = unify(b, a) = equality of normal forms computed by NbE on the elaborated terms (lambda annotations ignored); non-trivial = (a) >= 5 steps, (b) at least one reduct compared, (c, d) the two texts differ; both verdicts occur (the evidence reports the equal / unequal split); distinct by text",
        assumptions: vec![
            "pairs involving recursive definitions are excluded from (c, d): comparing two different recursive functions unfolds forever in any implementation without fuel",
            "fuel exhaustion of the reference and aborts / hangs of gram on divergent terms are inconclusive",
        ],
        idle_limit_s: 45,
        needs_cli: false,
        fuzz: None,
        parts: vec![
            Part {
                name: "normaliser-vs-evaluator",
                rounds,
                run: Box::new(|ctx, r| ctx.prop("normaliser-vs-evaluator", r, 300, 600, normaliser_case)),
                replay: Some(Box::new(|ctx, inp| match inp {
                    ReplayInput::Choices(c) => normaliser_case(ctx, &mut Ch::new(c)),
                    _ => Err(Failure::new("this part replays from choices", "")),
                })),
            },
            Part {
                name: "reduction",
                rounds,
                run: Box::new(|ctx, r| ctx.prop("reduction", r, 300, 600, reduction_case)),
                replay: Some(Box::new(|ctx, inp| match inp {
                    ReplayInput::Choices(c) => reduction_case(ctx, &mut Ch::new(c)),
                    _ => Err(Failure::new("this part replays from choices", "")),
                })),
            },
            Part {
                name: "operand-pairs",
                rounds: 1,
                run: Box::new(|ctx, _| operand_pairs(ctx)),
                replay: None,
            },
            Part {
                name: "group-pairs",
                rounds: tier.pick(5, 50),
                run: Box::new(|ctx, r| ctx.prop("group-pairs", r, 400, 60, group_pair_case)),
                replay: Some(Box::new(|ctx, inp| match inp {
                    ReplayInput::Choices(c) => group_pair_case(ctx, &mut Ch::new(c)),
                    _ => Err(Failure::new("this part replays from choices", "")),
                })),
            },
            Part {
                name: "pairs",
                rounds,
                run: Box::new(|ctx, r| ctx.prop("pairs", r, 300, 900, pair_case)),
                replay: Some(Box::new(|ctx, inp| match inp {
                    ReplayInput::Choices(c) => pair_case(ctx, &mut Ch::new(c)),
                    _ => Err(Failure::new("this part replays from choices", "")),
                })),
            },
        ],
    }
}
