//! C18 — Checking under a context matches the closed program; contexts are restored.

use crate::gens::mutate;
use crate::gens::prog::{self, ProgCfg};
use crate::normalizer::normalize_weak_head;
use crate::refs::core::{self, Names, Nbe};
use crate::runner::{CheckDef, Ctx, Failure, Outcome, Part, ReplayInput, Tier, catch};
use crate::sast::{self, Def, S};
use crate::term::{Term, Variant};
use crate::typed;
use crate::unifier::unify;
use crate::util::Ch;
use std::rc::Rc;

type TypingCtx<'a> = Vec<(Rc<Term<'a>>, usize)>;
type DefsCtx<'a> = Vec<Option<(Rc<Term<'a>>, usize)>>;

enum Block<'a> {
    Param(&'a str, bool, Rc<Term<'a>>),
    Group(Vec<(&'a str, Rc<Term<'a>>, Rc<Term<'a>>)>),
}

/// Peel the leading binders of a closed parsed term into context blocks.
fn peel<'a>(t: &Term<'a>, max: usize) -> (Vec<Block<'a>>, Term<'a>) {
    let mut blocks = vec![];
    let mut cur = t.clone();
    while blocks.len() < max {
        let next = match &cur.variant {
            Variant::Lambda(n, im, dom, body) => {
                blocks.push(Block::Param(n, *im, dom.clone()));
                (**body).clone()
            }
            Variant::Let(defs, body) => {
                blocks.push(Block::Group(defs.clone()));
                (**body).clone()
            }
            _ => break,
        };
        cur = next;
    }
    (blocks, cur)
}

/// The contexts the checker itself builds while descending through the blocks.
fn contexts<'a>(blocks: &[Block<'a>]) -> (TypingCtx<'a>, DefsCtx<'a>) {
    let mut tc: TypingCtx<'a> = vec![];
    let mut dc: DefsCtx<'a> = vec![];
    for b in blocks {
        match b {
            Block::Param(_, _, dom) => {
                tc.push((dom.clone(), 0));
                dc.push(None);
            }
            Block::Group(defs) => {
                let n = defs.len();
                for (i, (_, ann, def)) in defs.iter().enumerate() {
                    tc.push((ann.clone(), n - i));
                    dc.push(Some((def.clone(), n - i)));
                }
            }
        }
    }
    (tc, dc)
}

/// Bind the blocks around a term again (for types: parameters become pi types).
fn close<'a>(blocks: &[Block<'a>], inner: Term<'a>, as_type: bool) -> Term<'a> {
    let mut acc = inner;
    for b in blocks.iter().rev() {
        acc = match b {
            Block::Param(n, im, dom) => Term {
                source_range: None,
                variant: if as_type { Variant::Pi(n, *im, dom.clone(), Rc::new(acc)) } else { Variant::Lambda(n, *im, dom.clone(), Rc::new(acc)) },
            },
            Block::Group(defs) => Term { source_range: None, variant: Variant::Let(defs.clone(), Rc::new(acc)) },
        };
    }
    acc
}

fn snapshot(tc: &TypingCtx, dc: &DefsCtx) -> (Vec<(usize, usize)>, Vec<Option<(usize, usize)>>) {
    (
        tc.iter().map(|(t, o)| (Rc::as_ptr(t) as usize, *o)).collect(),
        dc.iter().map(|e| e.as_ref().map(|(t, o)| (Rc::as_ptr(t) as usize, *o))).collect(),
    )
}

/// Split a surface program into its leading binder prefix and body (same rule as `peel`).
fn peel_s(s: &S, max: usize) -> (Vec<S>, S) {
    let mut prefix = vec![];
    let mut cur = s.clone();
    while prefix.len() < max {
        match cur {
            S::Lam { name, implicit, ann, body } => {
                prefix.push(S::Lam { name, implicit, ann, body: Box::new(S::Type) });
                cur = *body;
            }
            S::Let { defs, body } => {
                prefix.push(S::Let { defs, body: Box::new(S::Type) });
                cur = *body;
            }
            other => {
                cur = other;
                break;
            }
        }
    }
    (prefix, cur)
}

fn wrap_s(prefix: &[S], body: S) -> S {
    let mut acc = body;
    for p in prefix.iter().rev() {
        acc = match p {
            S::Lam { name, implicit, ann, .. } => S::Lam { name: name.clone(), implicit: *implicit, ann: ann.clone(), body: Box::new(acc) },
            S::Let { defs, .. } => S::Let { defs: defs.clone(), body: Box::new(acc) },
            _ => unreachable!(),
        };
    }
    acc
}

fn count_kinds(blocks: &[Block]) -> (usize, usize) {
    (blocks.iter().filter(|b| matches!(b, Block::Param(..))).count(), blocks.iter().filter(|b| matches!(b, Block::Group(_))).count())
}

fn context_case(ctx: &Ctx, ch: &mut Ch) -> Outcome {
    // No recursive definitions: comparing two different recursive functions by conversion unfolds
    // forever (see C06).
    let cfg = ProgCfg { forward_aliases: true, block_bias: true, recursion: false, ..ProgCfg::default() };
    let kind = if ch.chance(3, 5) { ch.pick(2) } else { 2 };
    let fuel = 4 + ch.pick(4);
    let Some(p) = prog::gen_program(ch, cfg, kind, fuel) else {
        ctx.class("generator: gave up");
        return Ok(());
    };
    if p.text.len() > 3000 {
        return Ok(());
    }
    // A nested group directly in the body of a group belongs to that group after flattening, so the
    // prefix is peeled from the flattened tree.
    let (prefix, body) = peel_s(&p.s, 5);
    if prefix.is_empty() {
        ctx.class("no leading binder (skipped)");
        return Ok(());
    }
    // Rejected variants: a type fault planted inside the open term only.
    let planted = ch.chance(2, 5);
    let body_a = if planted { mutate::perturb(&body, ch).0 } else { body.clone() };
    // A second term in the same context, for the unification comparison.
    let body_b = {
        let n = mutate::count_redexes(&body);
        if n > 0 && ch.chance(1, 2) {
            let mut k = ch.pick(n);
            let mut kind = "";
            mutate::reduce_nth(&body, &mut k, &mut kind)
        } else {
            let mut k = ch.pick(body.size());
            mutate::map_nth(&body, &mut k, &mut |x| match x {
                S::Lit(v) => S::Lit(v + 1),
                other => other.clone(),
            })
        }
    };
    // The body must not be a group itself (it would be flattened into the last group block).
    if matches!(body_a.strip(), S::Let { .. }) || matches!(body_b.strip(), S::Let { .. }) || matches!(body.strip(), S::Let { .. }) {
        ctx.class("body is a group (skipped)");
        return Ok(());
    }
    let text_a = sast::print_plain(&wrap_s(&prefix, body_a).flatten());
    let text_b = sast::print_plain(&wrap_s(&prefix, body_b).flatten());
    let nblocks = prefix.len();
    let input = format!("{text_a}   [context = the first {nblocks} binder block(s); second term for unify: {text_b}]");
    ctx.announce(false, None, &input);
    let r: Result<Result<(bool, usize, usize, bool), Failure>, String> = catch(|| {
        let fail = |m: String| Failure::new(m, input.clone());
        let (Ok(ta), Ok(tb)) = (crate::tokenizer::tokenize(None, &text_a), crate::tokenizer::tokenize(None, &text_b)) else {
            return Err(fail("generated text does not tokenize".into()));
        };
        let (Ok(pa), Ok(pa2), Ok(pb)) = (
            crate::parser::parse(None, &text_a, &ta, &[]),
            crate::parser::parse(None, &text_a, &ta, &[]),
            crate::parser::parse(None, &text_b, &tb, &[]),
        ) else {
            return Ok((false, 0, 0, false)); // rejected by the parser (a perturbation broke scoping)
        };
        let (blocks, open_a) = peel(&pa, nblocks);
        let (blocks_b, open_b) = peel(&pb, nblocks);
        if blocks.len() != nblocks || blocks_b.len() != nblocks {
            return Ok((false, 0, 0, false));
        }
        let (mut tc, mut dc) = contexts(&blocks);
        if tc.len() != dc.len() {
            return Err(fail("harness: contexts differ in length".into()));
        }
        let before = snapshot(&tc, &dc);
        // Open check vs closed check.
        let open = crate::type_checker::type_check(None, &text_a, &open_a, &mut tc, &mut dc);
        if snapshot(&tc, &dc) != before {
            return Err(fail(format!("type_check left the contexts modified ({} -> {} typing entries, {} -> {} definition entries); outcome was {}", before.0.len(), tc.len(), before.1.len(), dc.len(), if open.is_ok() { "Ok" } else { "Err" })));
        }
        let closed = crate::type_checker::type_check(None, &text_a, &pa2, &mut vec![], &mut vec![]);
        match (&open, &closed) {
            (Ok(_), Err(e)) => return Err(fail(format!("the open term is accepted under its context but the closed program is rejected: {:?}", crate::pipe::heads(e)))),
            (Err(e), Ok(_)) => return Err(fail(format!("the closed program is accepted but the open term is rejected under its context: {:?}", crate::pipe::heads(e)))),
            _ => {}
        }
        let accepted = open.is_ok();
        if let (Ok((_, t_open)), Ok((_, t_closed))) = (&open, &closed) {
            // The closed type, compared with the open type bound by the same blocks.
            let rebuilt = close(&blocks, t_open.clone(), true);
            let mut names = Names::default();
            let (Ok(k1), Ok(k2)) = (core::from_gram(&rebuilt, &mut vec![], &mut names), core::from_gram(t_closed, &mut vec![], &mut names)) else {
                return Err(fail(format!("a reported type is not well scoped: open `{t_open}`, closed `{t_closed}`")));
            };
            if !core::has_hole(&k1) && !core::has_hole(&k2) {
                let mut nbe = Nbe::new(300_000);
                let same = (|| {
                    let v1 = nbe.eval(&k1, &None).ok()?;
                    let v2 = nbe.eval(&k2, &None).ok()?;
                    nbe.conv(&v1, &v2).ok()
                })();
                if same == Some(false) {
                    return Err(fail(format!("the type under the context, `{t_open}`, bound by the context's blocks gives `{rebuilt}`, which is not convertible with the closed program's type `{t_closed}`")));
                }
            }
        }
        // Unification under the context vs closed.
        let u_open = unify(&open_a, &open_b, &mut dc);
        if snapshot(&tc, &dc) != before {
            return Err(fail("unify left the definitions context modified".into()));
        }
        let u_closed = unify(&close(&blocks, open_a.clone(), false), &close(&blocks, open_b.clone(), false), &mut vec![]);
        if !planted && u_open != u_closed {
            return Err(fail(format!("unify under the context says {u_open}, on the closed terms {u_closed}")));
        }
        // Normalisation under a context of definitions only vs the closed let.
        let (params, groups) = count_kinds(&blocks);
        let mut compared_norm = false;
        if !planted && params == 0 && accepted {
            let n_open = normalize_weak_head(&open_a, &mut dc);
            if snapshot(&tc, &dc) != before {
                return Err(fail("normalize_weak_head left the definitions context modified".into()));
            }
            let n_closed = normalize_weak_head(&close(&blocks, open_a.clone(), false), &mut vec![]);
            if let (Some(a), Some(b)) = (typed::gram_value(&n_open), typed::gram_value(&n_closed)) {
                if matches!(a, typed::RefValue::Int(_) | typed::RefValue::Bool(_)) || matches!(b, typed::RefValue::Int(_) | typed::RefValue::Bool(_)) {
                    if a != b {
                        return Err(fail(format!("normalising under the context yields `{n_open}`, normalising the closed let yields `{n_closed}`")));
                    }
                    compared_norm = true;
                }
            }
        }
        Ok((accepted, params, groups, compared_norm))
    });
    match r {
        Err(p) => Err(Failure::new(format!("panic: {p}"), input).with_sig("panic")),
        Ok(Err(f)) => Err(f),
        Ok(Ok((accepted, params, groups, norm))) => {
            if params + groups == 0 {
                ctx.class("rejected by the parser or no blocks (skipped)");
                return Ok(());
            }
            ctx.class(match (accepted, planted) {
                (true, false) => "accepted open and closed; types agree; contexts restored",
                (true, true) => "perturbed body still accepted open and closed; contexts restored",
                (false, true) => "planted fault rejected open and closed; contexts restored",
                (false, false) => "rejected open and closed; contexts restored",
            });
            if norm {
                ctx.class("normalisation under a context of definitions compared");
            }
            if params >= 1 && groups >= 1 {
                ctx.class("context mixes parameter and definition blocks");
                ctx.nontrivial(&input);
            } else if params + groups >= 2 && !accepted {
                ctx.nontrivial(&input);
            }
            Ok(())
        }
    }
}

pub fn def(tier: Tier) -> CheckDef {
    let rounds = tier.pick(8, 120);
    CheckDef {
        id: "C18",
        level: "exploration",
        rule: "type-directed generated closed programs that start with 1-5 binder blocks (annotated parameters, groups of 1-5 definitions incl. forward aliases, no recursion); the leading blocks are turned into the typing / definitions contexts exactly as the checker builds them (offset 0 for parameters, n - i for the i-th definition of a group) and the remaining body is the open term; 40% of the bodies get a planted type fault (so the checker leaves nested scopes on its error path); oracle = type_check(open term, contexts) has the same verdict as type_check(closed program, [], []) and, on acceptance, the open type bound again by the blocks is convertible (NbE) with the closed type; unify(a, b, context) for a second body (a reduct or a literal-changed copy) has the verdict of unify on the closed terms; normalize_weak_head under a context of definitions yields the literal of the closed let; after every call, Ok or Err, both context vectors have the same length, Rc pointers and offsets as before; non-trivial = the context mixes parameter and definition blocks, or a rejected case under >= 2 blocks; distinct by text",
        assumptions: vec!["contexts are built from the parsed (fully annotated) prefix, which is what the checker pushes for explicit programs"],
        idle_limit_s: 60,
        needs_cli: false,
        fuzz: None,
        parts: vec![Part {
            name: "contexts",
            rounds,
            run: Box::new(|ctx, r| ctx.prop("contexts", r, 400, 800, context_case)),
            replay: Some(Box::new(|ctx, inp| match inp {
                ReplayInput::Choices(c) => context_case(ctx, &mut Ch::new(c)),
                _ => Err(Failure::new("this part replays from choices", "")),
            })),
        }],
    }
}
