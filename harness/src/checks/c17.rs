//! C17 — Parsing time does not blow up with nesting or length.

use crate::gens::syn::{SynCfg, SynGen};
use crate::runner::{CheckDef, Ctx, Failure, Outcome, Part, ReplayInput, Tier, catch};
use crate::sast;
use crate::util::Ch;

/// Upper bound on parsing-function calls per token (hit or miss). Calibrated on the pinned tree:
/// the largest ratio over all families and sizes is about 60 (see the evidence file, class
/// "max calls per token"); 4x that leaves room for harmless refactorings while an un-memoised
/// function is off by orders of magnitude already at n = 25.
pub const MAX_CALLS_PER_TOKEN: f64 = 250.0;

/// Upper bound on calls of the passes over the parsed term (re-association x 3, variable
/// resolution, definition-order check) per token. Each pass visits a node a bounded number of
/// times; calibrated like the bound above (largest observed ratio: see the evidence class
/// "pass calls per token").
pub const MAX_PASS_CALLS_PER_TOKEN: f64 = 40.0;

/// Upper bound on the number of diagnostics per token. The error path is work too (every
/// diagnostic is collected from the tree and rendered with an excerpt of the source); on the
/// pinned tree a rejected input never yields more diagnostics than it has tokens (see the evidence
/// class "diagnostics per token").
pub const MAX_DIAGS_PER_TOKEN: f64 = 3.0;

fn thread_cpu_seconds() -> f64 {
    let mut ts = libc::timespec { tv_sec: 0, tv_nsec: 0 };
    // SAFETY: plain syscall writing into a local struct.
    unsafe {
        libc::clock_gettime(libc::CLOCK_THREAD_CPUTIME_ID, &mut ts);
    }
    ts.tv_sec as f64 + ts.tv_nsec as f64 * 1e-9
}

pub struct Measure {
    pub tokens: usize,
    pub calls: u64,
    /// Calls of the passes that run over the parsed term (second hook counter).
    pub pass_calls: u64,
    pub cpu_s: f64,
    pub ok: bool,
    /// Number of diagnostics returned (0 when the input is accepted).
    pub diags: usize,
}

/// tokenize + parse `text`, returning the hook counter's delta and the CPU time.
pub fn measure(text: &str) -> Result<Measure, String> {
    catch(|| {
        let t0 = thread_cpu_seconds();
        let toks = match crate::tokenizer::tokenize(None, text) {
            Ok(t) => t,
            Err(_) => return Measure { tokens: 0, calls: 0, pass_calls: 0, cpu_s: 0.0, ok: false, diags: 0 },
        };
        let before = crate::parser::VERIF_PARSE_CALLS.with(std::cell::Cell::get);
        let pass_before = crate::parser::VERIF_PASS_CALLS.with(std::cell::Cell::get);
        let r = crate::parser::parse(None, text, &toks, &[]);
        let after = crate::parser::VERIF_PARSE_CALLS.with(std::cell::Cell::get);
        let pass_after = crate::parser::VERIF_PASS_CALLS.with(std::cell::Cell::get);
        // Render the diagnostics too, as the CLI would.
        let mut diags = 0;
        if let Err(e) = &r {
            let _n: usize = e.iter().map(|x| x.message.len()).sum();
            diags = e.len();
        }
        let t1 = thread_cpu_seconds();
        Measure { tokens: toks.len(), calls: after - before, pass_calls: pass_after - pass_before, cpu_s: t1 - t0, ok: r.is_ok(), diags }
    })
}

type Family = (&'static str, fn(usize) -> String);

fn rep(s: &str, n: usize) -> String {
    s.repeat(n)
}

pub const FAMILIES: [Family; 31] = [
    ("nested parentheses", |n| format!("{}1{}", rep("(", n), rep(")", n))),
    ("nested pi domains", |n| {
        let mut s = String::new();
        for i in 0..n {
            s.push_str(&format!("(x{i} : "));
        }
        s.push_str("int");
        for _ in 0..n {
            s.push_str(") -> int");
        }
        s
    }),
    ("binder-looking prefixes", |n| format!("{}1{}", rep("(x : ", n), rep(")", n))),
    ("sum / difference chain", |n| (0..n).map(|i| i.to_string()).collect::<Vec<_>>().join(" + ").replace("7 +", "7 -")),
    ("product / quotient chain", |n| (1..=n).map(|i| i.to_string()).collect::<Vec<_>>().join(" * ").replace("3 *", "3 /")),
    ("application chain", |n| format!("(f => f{}) 1", rep(" f", n))),
    ("application chain of groups", |n| format!("(f => f{}) 1", rep(" (f)", n))),
    ("comparison of two chains", |n| format!("{}0 < {}1", rep("1 + ", n / 2), rep("2 * ", n / 2))),
    ("negation chain", |n| format!("{}1", rep("- ", n))),
    ("arrow chain", |n| format!("{}int", rep("int -> ", n))),
    ("nested lambdas", |n| {
        let mut s = String::new();
        for i in 0..n {
            s.push_str(&format!("x{i} => "));
        }
        s.push('1');
        s
    }),
    ("nested annotated lambdas", |n| {
        let mut s = String::new();
        for i in 0..n {
            s.push_str(&format!("(x{i} : int) => "));
        }
        s.push('1');
        s
    }),
    ("nested implicit lambdas", |n| {
        let mut s = String::new();
        for i in 0..n {
            s.push_str(&format!("{{x{i} : int}} => "));
        }
        s.push('1');
        s
    }),
    ("nested if in condition", |n| format!("{}true{}", rep("if ", n), rep(" then true else false", n))),
    ("nested if in then branch", |n| format!("{}1{}", rep("if true then ", n), rep(" else 0", n))),
    ("nested if in else branch", |n| format!("{}0", rep("if false then 1 else ", n))),
    ("definition sequence", |n| {
        let mut s = String::new();
        for i in 0..n {
            s.push_str(&format!("x{i} = {i}\n"));
        }
        s.push('0');
        s
    }),
    ("annotated definition sequence", |n| {
        let mut s = String::new();
        for i in 0..n {
            s.push_str(&format!("x{i} : int = {i}; "));
        }
        s.push('0');
        s
    }),
    ("definitions holding nested groups", |n| {
        let mut s = String::new();
        for i in 0..n {
            s.push_str(&format!("x{i} = (y{i} = {i}; z{i} = y{i}; z{i})\n"));
        }
        s.push('0');
        s
    }),
    ("nested groups in definitions", |n| {
        let mut s = String::new();
        for i in 0..n {
            s.push_str(&format!("x{i} = ("));
        }
        s.push('1');
        for i in (0..n).rev() {
            s.push_str(&format!("; x{i})"));
        }
        s
    }),
    ("functions sharing earlier functions (fib-shaped calls), used by a non-value definition", |n| {
        let mut s = String::from("f0 = (x : int) => x + 1\nf1 = (x : int) => f0 x\n");
        for i in 2..n.max(2) {
            s.push_str(&format!("f{i} = (x : int) => f{} (f{} x)\n", i - 1, i - 2));
        }
        s.push_str(&format!("r = f{} 0\nr", n.max(2) - 1));
        s
    }),
    ("non-value definitions each mentioning the two before", |n| {
        let mut s = String::from("x0 = 1 + 1\nx1 = x0 + 1\n");
        for i in 2..n.max(2) {
            s.push_str(&format!("x{i} = x{} + x{}\n", i - 1, i - 2));
        }
        s.push_str(&format!("x{}", n.max(2) - 1));
        s
    }),
    ("functions each mentioning all later functions, used by a first non-value definition", |n| {
        let m = n.min(400);
        let mut s = String::from("r = g0 1\n");
        for i in 0..m {
            let later: Vec<String> = (i + 1..m.min(i + 4)).map(|j| format!("g{j} y")).collect();
            s.push_str(&format!("g{i} = (y : int) => y{}\n", later.iter().map(|l| format!(" + {l}")).collect::<String>()));
        }
        s.push('r');
        s
    }),
    // Groups nested in each position of an operator / application chain: the passes that run
    // over the parsed term (re-association above all) recurse through these.
    ("application with a grouped middle argument, nested", |n| format!("f => {}f 1 2{}", rep("f (", n), rep(") 2", n))),
    ("application with a grouped head, nested", |n| format!("f => {}f 1{}", rep("(", n), rep(") 2", n))),
    ("application with a grouped last argument, nested", |n| format!("f => {}f 2 1{}", rep("f 2 (", n), rep(")", n))),
    ("product with a grouped middle operand, nested", |n| format!("{}1 * 2 / 3{}", rep("1 * (", n), rep(") / 3", n))),
    ("sum with a grouped middle operand, nested", |n| format!("{}1 + 2 - 3{}", rep("1 - (", n), rep(") + 3", n))),
    ("application, product and sum nested through groups", |n| format!("f => {}f 2 3{}", rep("f (1 * (2 + (", n / 3 + 1), rep(") - 4) / 5) 6", n / 3 + 1))),
    ("one long literal", |n| rep("7", n * 8)),
    ("one long identifier", |n| format!("({} => 1)", rep("ab", n * 4))),
];

/// Families built from a table: a three-operand chain of each kind (application, `*` `/`, `+` `-`)
/// nested n levels deep in its head, middle or last operand, the two other operands
/// parenthesised or not in every combination. The passes that re-associate chains treat a
/// parenthesised operand differently from a bare one at every position, so each combination is a
/// different path through them.
pub fn chain_nest_families() -> Vec<(String, Box<dyn Fn(usize) -> String + Send + Sync>)> {
    let mut out: Vec<(String, Box<dyn Fn(usize) -> String + Send + Sync>)> = vec![];
    let kinds: [(&str, &str, &str, &str, [&str; 3]); 3] = [
        ("application", " ", " ", "f => ", ["f", "1", "2"]),
        ("product / quotient", " * ", " / ", "", ["6", "3", "2"]),
        ("sum / difference", " + ", " - ", "", ["6", "3", "2"]),
    ];
    for (kind, op1, op2, head, atoms) in kinds {
        for pos in 0..3usize {
            for mask in 0..4usize {
                let others: Vec<usize> = (0..3).filter(|i| *i != pos).collect();
                let mut opnd: Vec<String> = atoms.iter().map(|a| (*a).to_owned()).collect();
                let mut desc = vec![];
                for (bit, i) in others.iter().enumerate() {
                    if mask >> bit & 1 == 1 {
                        opnd[*i] = format!("({})", atoms[*i]);
                        desc.push(["head", "middle", "last"][*i]);
                    }
                }
                let base = format!("{}{op1}{}{op2}{}", atoms[0], atoms[1], atoms[2]);
                let (prefix, suffix) = match pos {
                    0 => ("(".to_owned(), format!("){op1}{}{op2}{}", opnd[1], opnd[2])),
                    1 => (format!("{}{op1}(", opnd[0]), format!("){op2}{}", opnd[2])),
                    _ => (format!("{}{op1}{}{op2}(", opnd[0], opnd[1]), ")".to_owned()),
                };
                let name = format!(
                    "{kind} chain nested in its {} operand, parenthesised besides: {}",
                    ["head", "middle", "last"][pos],
                    if desc.is_empty() { "none".to_owned() } else { desc.join(" and ") }
                );
                let head = head.to_owned();
                out.push((name, Box::new(move |n| format!("{head}{}{base}{}", prefix.repeat(n), suffix.repeat(n)))));
            }
        }
    }
    // Closed groups nested in argument / operand / condition position, each with a stray token
    // before its `)`: error recovery succeeds at every level, and the diagnostics of all levels
    // are collected on the way out.
    let stray: [(&str, &str, &str, &str, &str); 5] = [
        ("application arguments", "f => ", "f (", "f 1", " else)"),
        ("sum operands", "", "1 + (", "2", " then)"),
        ("product operands", "", "2 * (", "3", " = )"),
        ("conditions", "", "if (", "true", " : ) then 1 else 2"),
        ("definitions", "", "(x = (", "1", " then); x)"),
    ];
    for (what, head, open, base, close) in stray {
        let (head, open, base, close) = (head.to_owned(), open.to_owned(), base.to_owned(), close.to_owned());
        out.push((format!("groups nested as {what}, each with a stray token before its closing bracket"), Box::new(move |n| format!("{head}{}{base}{}", open.repeat(n), close.repeat(n)))));
    }
    out
}

fn family(fam: usize) -> (String, Box<dyn Fn(usize) -> String + Send + Sync>) {
    if fam < FAMILIES.len() {
        let (name, build) = FAMILIES[fam];
        (name.to_owned(), Box::new(build))
    } else {
        chain_nest_families().swap_remove(fam - FAMILIES.len())
    }
}

pub fn family_count() -> usize {
    FAMILIES.len() + chain_nest_families().len()
}

pub const VARIANTS: [&str; 5] = ["well-formed", "second half dropped", "closing brackets dropped", "operator doubled in the middle", "stray closing bracket in the middle"];

pub fn dmg(text: &str, variant: usize) -> String { damage(text, variant) }
fn damage(text: &str, variant: usize) -> String {
    match variant {
        0 => text.to_owned(),
        1 => {
            let mut cut = text.len() / 2;
            while !text.is_char_boundary(cut) {
                cut += 1;
            }
            text[..cut].to_owned()
        }
        2 => text.replace(')', "").replace('}', ""),
        3 => {
            let mut cut = text.len() / 2;
            while !text.is_char_boundary(cut) {
                cut += 1;
            }
            format!("{} + * {}", &text[..cut], &text[cut..])
        }
        _ => {
            let mut cut = text.len() / 2;
            while !text.is_char_boundary(cut) {
                cut += 1;
            }
            format!("{} ) {}", &text[..cut], &text[cut..])
        }
    }
}

fn run_family(ctx: &Ctx, fam: usize, variant: usize, max_n: usize) {
    let (name, build) = family(fam);
    let mut prev: Option<(usize, Measure)> = None;
    let mut slow_doublings = 0;
    let mut rate_jumps = 0;
    let mut n = 6;
    while n <= max_n {
        let text = damage(&build(n), variant);
        let label = format!("family `{name}`, variant `{}`, n = {n}", VARIANTS[variant]);
        ctx.announce(true, None, &label);
        ctx.evaluated(1);
        let m = match measure(&text) {
            Ok(m) => m,
            Err(p) => {
                ctx.settle(Err(Failure::new(format!("panic while parsing: {p}"), label).with_sig("panic")));
                return;
            }
        };
        if m.tokens == 0 {
            return;
        }
        let per_token = m.calls as f64 / m.tokens as f64;
        if per_token > MAX_CALLS_PER_TOKEN {
            ctx.settle(Err(Failure::new(
                format!("{} parsing-function calls for {} tokens ({per_token:.0} per token; the bound is {MAX_CALLS_PER_TOKEN})", m.calls, m.tokens),
                label,
            )));
            return;
        }
        let pass_per_token = m.pass_calls as f64 / m.tokens as f64;
        if pass_per_token > MAX_PASS_CALLS_PER_TOKEN {
            ctx.settle(Err(Failure::new(
                format!("{} calls of the passes over the parsed term for {} tokens ({pass_per_token:.0} per token; the bound is {MAX_PASS_CALLS_PER_TOKEN})", m.pass_calls, m.tokens),
                label,
            )));
            return;
        }
        let diags_per_token = m.diags as f64 / m.tokens as f64;
        if m.diags > 8 && diags_per_token > MAX_DIAGS_PER_TOKEN {
            ctx.settle(Err(Failure::new(
                format!("{} diagnostics for {} tokens ({diags_per_token:.0} per token; the bound is {MAX_DIAGS_PER_TOKEN})", m.diags, m.tokens),
                label,
            )));
            return;
        }
        if m.diags > 0 {
            ctx.class(&format!("diagnostics per token in [{:.1}, {:.1})", (diags_per_token * 2.0).floor() / 2.0, (diags_per_token * 2.0).floor() / 2.0 + 0.5));
        }
        ctx.class(&format!("pass calls per token in [{}, {})", (pass_per_token / 5.0).floor() * 5.0, (pass_per_token / 5.0).floor() * 5.0 + 5.0));
        if let Some((pn, pm)) = &prev {
            // Linear work means a bounded number of calls per token. The constant depends on where
            // a damage happens to fall, so a single jump is tolerated; super-linear growth shows
            // as the per-token rate rising on successive doublings.
            let prev_rate = pm.calls as f64 / pm.tokens.max(1) as f64;
            if *pn >= 100 && per_token > 1.3 * prev_rate {
                rate_jumps += 1;
                if rate_jumps >= 2 {
                    ctx.settle(Err(Failure::new(
                        format!("calls per token rose on two successive doublings (last: {prev_rate:.1} -> {per_token:.1}; {} calls for {} tokens)", m.calls, m.tokens),
                        label,
                    )));
                    return;
                }
            } else if *pn >= 100 {
                rate_jumps = 0;
            }
            // Loose CPU-time gate: worse than cubic on two successive doublings.
            if pm.cpu_s > 0.05 && m.cpu_s / pm.cpu_s > 12.0 {
                slow_doublings += 1;
                if slow_doublings >= 2 {
                    ctx.settle(Err(Failure::new(
                        format!("CPU time grew more than 12x on two successive doublings (last: {:.3}s -> {:.3}s)", pm.cpu_s, m.cpu_s),
                        label,
                    )));
                    return;
                }
            } else {
                slow_doublings = 0;
            }
        }
        if n >= 100 {
            ctx.nontrivial(&format!("{label}: {} tokens, {} calls ({per_token:.1}/token), {:.4}s cpu, parse {}", m.tokens, m.calls, m.cpu_s, if m.ok { "ok" } else { "rejected" }));
        }
        ctx.class(&format!("calls per token in [{}, {})", (per_token / 10.0).floor() * 10.0, (per_token / 10.0).floor() * 10.0 + 10.0));
        prev = Some((n, m));
        n *= 2;
    }
}

fn random_case(ctx: &Ctx, ch: &mut Ch) -> Outcome {
    let fuel = 3 + ch.pick(5);
    let cfg = SynCfg { paren_16: 2, ..SynCfg::default() };
    let mut g = SynGen::new(ch, cfg, &[]);
    let s = g.term(fuel).flatten();
    let text = sast::print_plain(&s);
    let variant = ch.pick(VARIANTS.len());
    let text = damage(&text, variant);
    if text.len() > 6000 {
        ctx.class("random composition: longer than 6000 bytes, skipped");
        return Ok(());
    }
    ctx.announce(true, None, &text);
    let m = measure(&text).map_err(|p| Failure::new(format!("panic: {p}"), text.clone()).with_sig("panic"))?;
    if m.tokens < 20 {
        ctx.class("random composition: fewer than 20 tokens");
        return Ok(());
    }
    let per_token = m.calls as f64 / m.tokens as f64;
    if per_token > MAX_CALLS_PER_TOKEN {
        return Err(Failure::new(format!("{} calls for {} tokens ({per_token:.0} per token; the bound is {MAX_CALLS_PER_TOKEN})", m.calls, m.tokens), text));
    }
    let pass_per_token = m.pass_calls as f64 / m.tokens as f64;
    if pass_per_token > MAX_PASS_CALLS_PER_TOKEN {
        return Err(Failure::new(format!("{} calls of the passes over the parsed term for {} tokens ({pass_per_token:.0} per token; the bound is {MAX_PASS_CALLS_PER_TOKEN})", m.pass_calls, m.tokens), text));
    }
    if m.diags > 8 && m.diags as f64 / m.tokens as f64 > MAX_DIAGS_PER_TOKEN {
        return Err(Failure::new(format!("{} diagnostics for {} tokens (the bound is {MAX_DIAGS_PER_TOKEN} per token)", m.diags, m.tokens), text));
    }
    ctx.class(&format!("calls per token in [{}, {})", (per_token / 10.0).floor() * 10.0, (per_token / 10.0).floor() * 10.0 + 10.0));
    ctx.class(&format!("pass calls per token in [{}, {})", (pass_per_token / 5.0).floor() * 5.0, (pass_per_token / 5.0).floor() * 5.0 + 5.0));
    if m.tokens >= 100 {
        ctx.nontrivial(&text);
    }
    Ok(())
}

pub fn def(tier: Tier) -> CheckDef {
    let max_n = tier.pick(1536, 6144);
    let rounds = tier.pick(8, 80);
    CheckDef {
        id: "C17",
        level: "exploration",
        rule: "72 input families parameterised by n (nested parentheses, three-operand application / product / sum chains nested in their head, middle or last operand with the other operands parenthesised or not in all 36 combinations, closed groups nested in argument / operand / condition / definition position each with a stray token before its closing bracket, groups nested in the head / middle / last position of application, product and sum chains, binder-looking prefixes, operator / application / arrow / negation chains, nested lambdas of three kinds, nested conditionals in each position, definition sequences, definitions sharing dependencies (the definition-order check walks them), nested groups, long tokens) x 5 variants (well-formed, second half dropped, closing brackets dropped, operator doubled, stray closing bracket), n doubling from 6 to 1536 (quick) / 6144 (thorough), plus proptest-generated random compositions with the same damages; oracle = the number of parsing-function calls (hook counter in cache_check!, hit or miss) stays below 250 per token, the number of calls of the passes that run over the parsed term afterwards (second hook counter: re-association, variable resolution, definition-order check) stays below 40 per token (about 4x the largest ratio observed on the pinned tree), the number of diagnostics returned stays below 3 per token (the error path is work as well; never above 1 per token on the pinned tree), and the per-token rate of parsing calls does not rise by more than 1.3x on two successive doublings for n >= 100; CPU time growing more than 12x on two successive doublings is also a violation; a hang is caught by the watchdog and attributed to the announced (family, variant, n); non-trivial = a (family, variant, n) triple with n >= 100 or a random composition of >= 100 tokens; distinct by label / text",
        assumptions: vec![
            "work is measured by the hook counter (deterministic), CPU time only as a coarse second gate",
            "the constant 250 calls per token was calibrated on the pinned tree as about 4x the largest observed ratio",
        ],
        idle_limit_s: 45,
        needs_cli: false,
        fuzz: None,
        parts: vec![
            Part {
                name: "families",
                rounds: 1,
                run: Box::new(move |ctx, _| {
                    let mut k = 0u32;
                    for fam in 0..family_count() {
                        for variant in 0..VARIANTS.len() {
                            if k % ctx.nshards == ctx.shard {
                                run_family(ctx, fam, variant, max_n);
                            }
                            k += 1;
                        }
                    }
                }),
                replay: None,
            },
            Part {
                name: "random-compositions",
                rounds,
                run: Box::new(|ctx, r| ctx.prop("random-compositions", r, 300, 2000, random_case)),
                replay: Some(Box::new(|ctx, inp| match inp {
                    ReplayInput::Choices(c) => random_case(ctx, &mut Ch::new(c)),
                    _ => Err(Failure::new("this part replays from choices", "")),
                })),
            },
        ],
    }
}
