//! C05 — Fully annotated well-typed programs are accepted; elaboration only fills holes.

use crate::dterm::D;
use crate::gens::prog::{self, ProgCfg, Program};
use crate::pipe::{self, Front};
use crate::runner::{CheckDef, Ctx, Failure, Outcome, Part, ReplayInput, Tier};
use crate::sast::{self, S};
use crate::typed::{self, RefType};
use crate::util::Ch;

pub fn count_binders(s: &S) -> usize {
    match s {
        S::Lam { ann, body, .. } => 1 + ann.as_ref().map_or(0, |a| count_binders(a)) + count_binders(body),
        S::Pi { name, dom, cod, .. } => usize::from(name.is_some()) + count_binders(dom) + count_binders(cod),
        S::App(a, b) | S::Bin(_, a, b) => count_binders(a) + count_binders(b),
        S::Neg(a) | S::Paren(a) => count_binders(a),
        S::If(a, b, c) => count_binders(a) + count_binders(b) + count_binders(c),
        S::Let { defs, body } => defs.len() + defs.iter().map(|d| d.ann.as_ref().map_or(0, count_binders) + count_binders(&d.def)).sum::<usize>() + count_binders(body),
        _ => 0,
    }
}

/// The oracle for one fully annotated source program.
pub fn check_program(ctx: &Ctx, s: &S, text: &str, features: &std::collections::BTreeSet<&'static str>) -> Outcome {
    let (mut tc, _k, verdict) = typed::ref_infer(s, true);
    let want = match verdict {
        RefType::Ok(t) => t,
        RefType::Ill(rule, why) => {
            ctx.class("generator: program rejected by the reference checker (discarded)");
            ctx.note(&format!("example of a generated program the reference checker rejects ({rule}: {why}): {}", crate::util::truncate(text, 300)));
            return Ok(());
        }
        RefType::Hole => {
            ctx.class("generator: program has a hole (outside this property's domain)");
            return Ok(());
        }
        RefType::Fuel => {
            ctx.inconclusive("reference checker ran out of fuel");
            return Ok(());
        }
        RefType::Unbound(e) => {
            ctx.class("generator: program is not well scoped (discarded)");
            ctx.note(&format!("generator scoping problem: {e}: {}", crate::util::truncate(text, 300)));
            return Ok(());
        }
    };
    // The input is terminating by construction (the reference checker accepted it within its
    // fuel), so an abort of gram's checker here is a violation.
    ctx.announce(true, None, text);
    let r = pipe::with_front(text, |front| -> Result<bool, Failure> {
        match front {
            // The definition-order check is not a typing rule: a program that the rule (as the
            // parser documents it; R-order) rejects is outside this property's domain. A program
            // that satisfies the rule must not be rejected by it.
            Front::ParseErr(e) if e.iter().all(|m| m.contains("will not be available in time")) => {
                if crate::refs::order::order_ok(&s.flatten()) {
                    Err(Failure::new(format!("a fully annotated well-typed program that satisfies the definition-order rule is rejected by the definition-order check: {e:?}"), text))
                } else {
                    Ok(false)
                }
            }
            Front::TokenizeErr(e) | Front::ParseErr(e) => Err(Failure::new(format!("a fully annotated well-typed program is rejected before type checking: {e:?}"), text)),
            Front::TypeErr { errors, .. } => Err(Failure::new(format!("a fully annotated well-typed program (reference type `{}`) is rejected: {errors:?}", tc.show(&want)), text)),
            Front::Accepted { parsed, elaborated, ty, .. } => {
                match typed::type_matches(&mut tc, &want, ty) {
                    Some(true) => {}
                    Some(false) => {
                        return Err(Failure::new(format!("accepted at type `{ty}`, which is not convertible with the expected type `{}`", tc.show(&want)), text));
                    }
                    None => ctx.inconclusive("comparison of the reported type ran out of fuel or met a hole"),
                }
                let elab = D::from_gram(elaborated);
                if let Err(why) = pipe::only_holes_filled(parsed, &elab) {
                    return Err(Failure::new(format!("elaboration rewrote more than holes: {why}; elaborated term `{elaborated}`"), text));
                }
                Ok(true)
            }
        }
    });
    match r {
        Err(p) => Err(Failure::new(p, text).with_sig("panic")),
        Ok(o) => {
            if !o? {
                ctx.class("rejected by the definition-order check, as the documented rule demands (outside the typing rules)");
                return Ok(());
            }
            ctx.class("accepted at a convertible type; elaboration filled holes only");
            for f in features {
                ctx.class(&format!("feature: {f}"));
            }
            let interesting = features.iter().any(|f| ["dependent function type", "group of >= 2 definitions", "recursive definition", "mutually recursive definitions", "polymorphic / dependent definition", "forward type alias"].contains(f));
            if count_binders(s) >= 2 && interesting {
                ctx.nontrivial(text);
            }
            Ok(())
        }
    }
}

fn generated_case(ctx: &Ctx, ch: &mut Ch) -> Outcome {
    let cfg = ProgCfg { forward_aliases: true, ..ProgCfg::default() };
    let kind = ch.pick(4);
    let fuel = 2 + ch.pick(5);
    let Some(p) = prog::gen_program(ch, cfg, kind, fuel) else {
        ctx.class("generator: gave up");
        return Ok(());
    };
    if p.text.len() > 6000 {
        ctx.class("skipped: longer than 6000 bytes");
        return Ok(());
    }
    check_program(ctx, &p.s, &p.text, &p.features)
}

/// Groups around the boundary of the definition-order rule: 2-4 annotated int / int -> int
/// definitions, a third of them functions, half of the others not syntactic values, which freely
/// mention earlier, later and nested definitions; nested in definitions and function bodies.
pub fn order_group(ch: &mut Ch, depth: usize, outer: &[(String, bool)], counter: &mut usize) -> String {
    let n = 2 + ch.pick(3);
    let names: Vec<(String, bool)> = (0..n)
        .map(|_| {
            *counter += 1;
            (format!("{}{}", ["d", "é", "k"][*counter % 3], *counter), ch.chance(1, 3))
        })
        .collect();
    let mut visible: Vec<(String, bool)> = outer.to_vec();
    visible.extend(names.iter().cloned());
    fn int_atom(ch: &mut Ch, visible: &[(String, bool)]) -> String {
        let ints: Vec<&(String, bool)> = visible.iter().filter(|(_, is_fn)| !is_fn).collect();
        let fns: Vec<&(String, bool)> = visible.iter().filter(|(_, is_fn)| *is_fn).collect();
        match ch.pick(4) {
            0 => ch.pick(10).to_string(),
            1 if !fns.is_empty() => format!("{} {}", fns[ch.pick(fns.len())].0, ch.pick(5)),
            _ if !ints.is_empty() => ints[ch.pick(ints.len())].0.clone(),
            _ => "1".to_owned(),
        }
    }
    let mut s = String::new();
    for (name, is_fn) in &names {
        let param = |counter: &mut usize| {
            *counter += 1;
            format!("n{}", *counter)
        };
        let (ann, rhs) = if *is_fn {
            let p = param(counter);
            let mut vis2 = visible.clone();
            vis2.push((p.clone(), false));
            let lam = format!("({p} : int) => {} + {}", int_atom(ch, &vis2), int_atom(ch, &vis2));
            // A function written as a value, or wrapped so that it is not a syntactic value.
            let rhs = match ch.pick(6) {
                0 => format!("if true then ({lam}) else ({lam})"),
                1 => {
                    let w = param(counter);
                    format!("(({w} : int -> int) => {w}) ({lam})")
                }
                _ => lam,
            };
            ("(int -> int)", rhs)
        } else {
            let rhs = match ch.pick(5) {
                0 => ch.pick(10).to_string(),
                1 if depth > 0 => format!("({})", order_group(ch, depth - 1, &visible, counter)),
                2 if depth > 0 => {
                    let p = param(counter);
                    let mut vis2 = visible.clone();
                    vis2.push((p.clone(), false));
                    format!("(({p} : int) => {}) {}", order_group(ch, depth - 1, &vis2, counter), ch.pick(4))
                }
                _ => format!("{} + {}", int_atom(ch, &visible), int_atom(ch, &visible)),
            };
            ("int", rhs)
        };
        s.push_str(&format!("{name} : {ann} = {rhs}; "));
    }
    s.push_str(&int_atom(ch, &visible));
    s
}

fn order_case(ctx: &Ctx, ch: &mut Ch) -> Outcome {
    let mut counter = 0;
    let depth = ch.pick(3);
    let text = order_group(ch, depth, &[], &mut counter);
    let Some(toks) = crate::refs::lex::expected_stream(&text) else { return Err(Failure::new("harness: the generated text does not lex", text)) };
    if toks.len() >= 240 {
        ctx.class("order-rule: skipped, 240 tokens or more");
        return Ok(());
    }
    let Some(s) = crate::checks::c07::with_grammar(|g| crate::refs::chart::parse_tokens(g, &toks).1) else {
        return Err(Failure::new("harness: the generated text is not a sentence", text));
    };
    let s = s.flatten().unparen();
    let ok = crate::refs::order::order_ok(&s);
    ctx.class(if ok { "order-rule: the group satisfies the documented rule" } else { "order-rule: the documented rule rejects the group" });
    let mut feats = std::collections::BTreeSet::new();
    feats.insert("group of >= 2 definitions");
    check_program(ctx, &s, &sast::print_plain(&s), &feats)
}

const REGRESSIONS: [&str; 6] = [
    "(y : t = 4; t : type = u; u : type = int; y) + 1",
    "a : int = 1; b : int = a + 1; c : type = int; (b + a)",
    "id : ((a : type) -> a -> a) = (a : type) => (x : a) => x; id int 3",
    "f : (int -> int) = (n : int) => if n <= 0 then 1 else n * f (n - 1); f 5",
    "ev : (int -> bool) = (n : int) => if n <= 0 then true else od (n - 1); od : (int -> bool) = (n : int) => if n <= 0 then false else ev (n - 1); ev 7",
    "tyf : (bool -> type) = (b : bool) => if b then int else bool; x : tyf true = 3; x + 1",
];

pub fn def(tier: Tier) -> CheckDef {
    let rounds = tier.pick(40, 400);
    let max_size = tier.pick(5, 6);
    CheckDef {
        id: "C05",
        level: "exploration",
        rule: "proptest-driven type-directed generation of fully annotated programs (goal-directed over NbE types: arithmetic, conditionals, higher-order and immediately applied functions, dependent and polymorphic definitions, type-level conditionals and applications in annotations, groups of 1-5 definitions nested in definitions and bodies, recursive and mutually recursive functions, forward type aliases, implicit binders), plus every closed explicit program up to size 5 (quick) / 6 (thorough) over a small vocabulary that the reference checker accepts; plus groups of 2-4 annotated int / int -> int definitions (functions also in non-value form) that freely mention earlier, later and nested definitions, around the boundary of the definition-order rule; domain = the programs an independent checker for explicit terms (R-core) accepts and that satisfy the definition-order rule as the parser documents it (R-order: a definition that is not a syntactic value may reach, through syntactic values, only non-values that come strictly before it); oracle = gram accepts them at a type convertible with R-core's, and the elaborated term equals a snapshot of the parser's output taken before checking, node for node, except where the snapshot has a hole; an abort of the checker on such a program is a violation; non-trivial = >= 2 binders and a dependent type, a group of >= 2 definitions, recursion, or a forward alias; distinct by program text",
        assumptions: vec![
            "the typing rules are those of R-core (type : type; explicit application only; no eta; lambda annotations ignored by conversion; all definitions of a group are transparent and mutually visible)",
        ],
        idle_limit_s: 120,
        needs_cli: false,
        fuzz: None,
        parts: vec![
            Part {
                name: "regressions",
                rounds: 1,
                run: Box::new(|ctx, _| {
                    if ctx.shard != 0 {
                        return;
                    }
                    for src in REGRESSIONS {
                        ctx.evaluated(1);
                        let toks: Vec<crate::tok::Tok> = crate::refs::lex::expected_stream(src).expect("regression lexes");
                        let s = crate::checks::c07::with_grammar(|g| crate::refs::chart::parse_tokens(g, &toks).1).expect("regression is a sentence").flatten().unparen();
                        let mut feats = std::collections::BTreeSet::new();
                        feats.insert("group of >= 2 definitions");
                        let r = check_program(ctx, &s, &sast::print_plain(&s), &feats);
                        ctx.settle(r);
                    }
                }),
                replay: None,
            },
            Part {
                name: "enum-small",
                rounds: 1,
                run: Box::new(move |ctx, _| {
                    // Every closed explicit program up to the size bound that the reference checker
                    // accepts must be accepted by gram (the other direction is C03's).
                    use crate::checks::c03::{closed, d_to_s, enum_leaves};
                    let mut e = crate::dterm::Enumerator::new(enum_leaves());
                    e.upto(max_size);
                    let mut idx = 0u64;
                    let mut total = 0u64;
                    let feats = std::collections::BTreeSet::new();
                    for n in 1..=max_size {
                        for d in &e.by_size[n] {
                            if !closed(d) {
                                continue;
                            }
                            idx += 1;
                            if idx % u64::from(ctx.nshards) != u64::from(ctx.shard) {
                                continue;
                            }
                            let s = d_to_s(d, 0).flatten();
                            if !matches!(typed::ref_infer(&s, true).2, RefType::Ok(_)) {
                                continue;
                            }
                            total += 1;
                            let text = sast::print_plain(&s);
                            match check_program(ctx, &s, &text, &feats) {
                                Ok(()) => {
                                    if n >= 3 {
                                        ctx.nontrivial_enumerated(|| text.clone());
                                    }
                                }
                                Err(f) => {
                                    ctx.settle(Err(f));
                                    if ctx.peek_violations() >= 8 {
                                        return;
                                    }
                                }
                            }
                        }
                    }
                    ctx.evaluated(total);
                    ctx.class_n("enumerated closed explicit programs accepted by the reference checker", total);
                    ctx.exhaustive("enum-small");
                    ctx.note(&format!("enum-small: every closed explicit program of size <= {max_size} (leaves type, int, 1, true, two variables) that the reference checker accepts"));
                }),
                replay: None,
            },
            Part {
                name: "order-rule",
                rounds: rounds / 4,
                run: Box::new(|ctx, r| ctx.prop("order-rule", r, 400, 300, order_case)),
                replay: Some(Box::new(|ctx, inp| match inp {
                    ReplayInput::Choices(c) => order_case(ctx, &mut Ch::new(c)),
                    _ => Err(Failure::new("this part replays from choices", "")),
                })),
            },
            Part {
                name: "generated",
                rounds,
                run: Box::new(|ctx, r| ctx.prop("generated", r, 400, 600, generated_case)),
                replay: Some(Box::new(|ctx, inp| match inp {
                    ReplayInput::Choices(c) => generated_case(ctx, &mut Ch::new(c)),
                    _ => Err(Failure::new("this part replays from choices", "")),
                })),
            },
        ],
    }
}
