//! C14 — gram handles every input without crashing and reports failure faithfully.

use crate::checks::c07::{gen_sentence, with_grammar};
use crate::checks::c09::{gen_soup, gen_unicode};
use crate::cli;
use crate::error::Error;
use crate::gens::syn::{SynCfg, SynGen};
use crate::runner::{CheckDef, Ctx, Failure, Outcome, Part, ReplayInput, Tier, catch};
use crate::sast;
use crate::tok::{self, ALL_KINDS, K, Tok};
use crate::util::Ch;
use num_bigint::BigInt;

fn check_errors(stage: &str, errs: &[Error], input: &str) -> Result<(), Failure> {
    if errs.is_empty() {
        return Err(Failure::new(format!("{stage} returned Err with an empty list of errors"), input));
    }
    for e in errs {
        if !e.message.starts_with("[Error]") {
            return Err(Failure::new(format!("{stage} produced a diagnostic that does not start with [Error]: {:?}", e.message), input));
        }
    }
    Ok(())
}

#[derive(Debug, Clone, Copy, PartialEq, Eq)]
pub enum Stage {
    TokenizeErr,
    ParseErr,
    TypeErr,
    Accepted,
}

/// tokenize -> parse -> type_check with the result-shape oracle. `announce` is called before the
/// type checker runs (the only stage that may legitimately diverge).
pub fn pipeline(ctx: Option<&Ctx>, text: &str, run_checker: bool) -> Result<Stage, Failure> {
    let input = format!("{text:?}");
    let toks = match catch(|| crate::tokenizer::tokenize(None, text)) {
        Err(p) => return Err(Failure::new(format!("tokenize panicked: {p}"), input).with_sig("panic")),
        Ok(Err(errs)) => {
            check_errors("tokenize", &errs, &input)?;
            return Ok(Stage::TokenizeErr);
        }
        Ok(Ok(t)) => t,
    };
    let term = match catch(|| crate::parser::parse(None, text, &toks, &[])) {
        Err(p) => return Err(Failure::new(format!("parse panicked: {p}"), input).with_sig("panic")),
        Ok(Err(errs)) => {
            check_errors("parse", &errs, &input)?;
            return Ok(Stage::ParseErr);
        }
        Ok(Ok(t)) => t,
    };
    if !run_checker {
        return Ok(Stage::Accepted);
    }
    // A program without applications and without definitions gives the checker nothing to loop
    // on (no beta steps, no unfolding): an abort while checking it is a violation. Otherwise
    // divergence may be written in the program, and an abort is inconclusive.
    if let Some(ctx) = ctx {
        ctx.announce(cannot_diverge(&term), None, &input);
    }
    // The result is rendered as `gram check` would print it.
    match catch(|| crate::type_checker::type_check(None, text, &term, &mut vec![], &mut vec![]).map(|(elaborated, ty)| { let _n = format!("{elaborated}").len() + format!("{ty}").len(); })) {
        Err(p) => Err(Failure::new(format!("type_check panicked: {p}"), input).with_sig("panic")),
        Ok(Err(errs)) => {
            check_errors("type_check", &errs, &input)?;
            Ok(Stage::TypeErr)
        }
        Ok(Ok(())) => Ok(Stage::Accepted),
    }
}

/// No application and no definition group anywhere in the term.
fn cannot_diverge(t: &crate::term::Term) -> bool {
    use crate::term::Variant as V;
    match &t.variant {
        V::Application(..) | V::Let(..) => false,
        V::Lambda(_, _, a, b) | V::Pi(_, _, a, b) => cannot_diverge(a) && cannot_diverge(b),
        V::Sum(a, b) | V::Difference(a, b) | V::Product(a, b) | V::Quotient(a, b) | V::LessThan(a, b) | V::LessThanOrEqualTo(a, b) | V::EqualTo(a, b) | V::GreaterThan(a, b) | V::GreaterThanOrEqualTo(a, b) => {
            cannot_diverge(a) && cannot_diverge(b)
        }
        V::Negation(a) => cannot_diverge(a),
        V::If(a, b, c) => cannot_diverge(a) && cannot_diverge(b) && cannot_diverge(c),
        _ => true,
    }
}

/// A term without applications and definitions, rich in omitted annotations, conditionals and
/// variables: everything the checker does on it is unification of holes.
fn gen_hole_puzzle(ch: &mut Ch, depth: usize, scope: &mut Vec<String>, counter: &mut usize) -> String {
    let leaf = |ch: &mut Ch, scope: &Vec<String>| -> String {
        if !scope.is_empty() && ch.chance(3, 4) {
            scope[ch.pick(scope.len())].clone()
        } else {
            ["1", "true", "int", "bool", "0", "false"][ch.pick(6)].to_owned()
        }
    };
    if depth == 0 {
        return leaf(ch, scope);
    }
    match ch.pick(10) {
        0..=3 => {
            *counter += 1;
            let name = format!("{}{}", ["x", "y", "w", "é"][*counter % 4], *counter);
            let ann = match ch.pick(6) {
                0 => Some("int".to_owned()),
                1 => Some("_".to_owned()),
                2 if !scope.is_empty() => Some(scope[ch.pick(scope.len())].clone()),
                _ => None,
            };
            scope.push(name.clone());
            let body = gen_hole_puzzle(ch, depth - 1, scope, counter);
            scope.pop();
            match ann {
                Some(a) => format!("(({name} : {a}) => {body})"),
                None => format!("({name} => {body})"),
            }
        }
        4..=7 => {
            let c = if !scope.is_empty() && ch.chance(1, 4) { scope[ch.pick(scope.len())].clone() } else { ["true", "false"][ch.pick(2)].to_owned() };
            let a = gen_hole_puzzle(ch, depth - 1, scope, counter);
            let b = gen_hole_puzzle(ch, depth - 1, scope, counter);
            format!("(if {c} then {a} else {b})")
        }
        8 => {
            let a = gen_hole_puzzle(ch, depth - 1, scope, counter);
            let b = leaf(ch, scope);
            format!("({a} {} {b})", ["+", "<", "*", "=="][ch.pick(4)])
        }
        _ => leaf(ch, scope),
    }
}

fn classify(ctx: &Ctx, stage: Stage, text: &str) {
    match stage {
        Stage::TokenizeErr => ctx.class("stopped in the tokenizer"),
        Stage::ParseErr => {
            ctx.class("tokenized, rejected by the parser");
            ctx.nontrivial(&format!("{text:?}"));
        }
        Stage::TypeErr => {
            ctx.class("parsed, rejected by the type checker");
            ctx.nontrivial(&format!("{text:?}"));
        }
        Stage::Accepted => {
            ctx.class("accepted by all stages reached");
            ctx.nontrivial(&format!("{text:?}"));
        }
    }
}

fn text_case(ctx: &Ctx, ch: &mut Ch) -> Outcome {
    let text = match ch.pick(4) {
        0 => gen_unicode(ch),
        1 | 2 => gen_soup(ch),
        _ => {
            // A sentence with a few characters damaged.
            let s = gen_sentence(ch);
            let mut t: Vec<char> = sast::print_plain(&s).chars().collect();
            for _ in 0..ch.pick(4) {
                if t.is_empty() {
                    break;
                }
                let p = ch.pick(t.len());
                match ch.pick(3) {
                    0 => {
                        t.remove(p);
                    }
                    1 => t.insert(p, ['(', ')', '{', '}', ';', '\n', '$', '=', '>', 'é', '#'][ch.pick(11)]),
                    _ => t[p] = ['(', ')', ':', '=', '-', '>', ' ', '\n', '@'][ch.pick(9)],
                }
            }
            t.into_iter().collect()
        }
    };
    let stage = pipeline(Some(ctx), &text, true)?;
    classify(ctx, stage, &text);
    Ok(())
}

fn parse_tokens_only(toks: &[Tok]) -> Result<Stage, Failure> {
    let (text, ranges) = tok::render_plain(toks);
    let gt = tok::to_gram(&text, toks, &ranges);
    let input = format!("tokens: {text}");
    match catch(|| crate::parser::parse(None, &text, &gt, &["c0"]).map(|_| ())) {
        Err(p) => Err(Failure::new(format!("parse panicked: {p}"), input).with_sig("panic")),
        Ok(Err(errs)) => {
            check_errors("parse", &errs, &input)?;
            // The diagnostics must also be renderable (listings slice the source text).
            Ok(Stage::ParseErr)
        }
        Ok(Ok(())) => Ok(Stage::Accepted),
    }
}

fn concretise(kinds: &[K]) -> Vec<Tok> {
    kinds
        .iter()
        .enumerate()
        .map(|(i, k)| match k {
            K::Identifier => Tok::Ident(["c0", "é", "x"][i % 3].to_owned()),
            K::IntegerLiteral => Tok::Lit(BigInt::from(i)),
            K::Terminator => if i % 2 == 0 { Tok::Semi } else { Tok::LineBreak },
            k => Tok::Simple(*k),
        })
        .collect()
}

fn damaged_case(ctx: &Ctx, ch: &mut Ch) -> Outcome {
    let kind = ch.pick(5);
    let toks: Vec<Tok> = if kind == 0 {
        // Unbalanced brackets.
        let depth = 1 + ch.pick(200);
        let mut t = vec![];
        for _ in 0..depth {
            t.push(Tok::Simple(if ch.chance(1, 8) { K::LeftCurly } else { K::LeftParen }));
            if ch.chance(1, 6) {
                t.push(Tok::Ident("c0".into()));
                t.push(Tok::Simple([K::Colon, K::Plus, K::ThickArrow, K::Equals][ch.pick(4)]));
            }
        }
        t.push(Tok::Lit(BigInt::from(1)));
        let closes = ch.pick(depth + 2);
        for _ in 0..closes {
            t.push(Tok::Simple(K::RightParen));
        }
        t
    } else {
        let s = gen_sentence(ch);
        let mut t = sast::print_tokens(&s);
        if t.len() > 120 {
            t.truncate(120);
        }
        match kind {
            1 => {
                let p = ch.pick(t.len() + 1);
                t.truncate(p);
            }
            2 => {
                for _ in 0..1 + ch.pick(3) {
                    if t.is_empty() {
                        break;
                    }
                    let p = ch.pick(t.len());
                    match ch.pick(3) {
                        0 => {
                            t.remove(p);
                        }
                        1 => {
                            let k = ALL_KINDS[ch.pick(28)];
                            t.insert(p, concretise(&[k]).remove(0));
                        }
                        _ => {
                            let k = ALL_KINDS[ch.pick(28)];
                            t[p] = concretise(&[k]).remove(0);
                        }
                    }
                }
            }
            4 => {
                // Names scrambled: one to three identifier tokens (binders and occurrences alike)
                // take the name of another identifier of the sentence or a name bound nowhere, so
                // that names are mentioned where they are not in scope (a parameter inside its own
                // annotation, a definition of an inner group outside it) or bound twice.
                let idents: Vec<usize> = t.iter().enumerate().filter(|(_, x)| matches!(x, Tok::Ident(_))).map(|(i, _)| i).collect();
                if !idents.is_empty() {
                    for _ in 0..1 + ch.pick(3) {
                        let p = idents[ch.pick(idents.len())];
                        t[p] = if ch.chance(1, 5) { Tok::Ident(["zz", "_u", "c0"][ch.pick(3)].into()) } else { t[idents[ch.pick(idents.len())]].clone() };
                    }
                }
            }
            _ => {
                // Double an operator in the middle / drop all closing brackets.
                if ch.chance(1, 2) {
                    t.retain(|x| x.kind() != K::RightParen);
                } else if !t.is_empty() {
                    let p = ch.pick(t.len());
                    let x = t[p].clone();
                    t.insert(p, x);
                }
            }
        }
        t
    };
    let stage = parse_tokens_only(&toks)?;
    let text = tok::render_plain(&toks).0;
    ctx.class(match (kind, stage) {
        (0, Stage::Accepted) => "brackets: accepted",
        (0, _) => "brackets: rejected",
        (1, Stage::Accepted) => "prefix of a sentence: accepted",
        (1, _) => "prefix of a sentence: rejected",
        (4, Stage::Accepted) => "sentence with names scrambled: accepted",
        (4, _) => "sentence with names scrambled: rejected",
        (_, Stage::Accepted) => "damaged sentence: accepted",
        _ => "damaged sentence: rejected",
    });
    if stage != Stage::Accepted {
        ctx.nontrivial(&text);
    }
    Ok(())
}

fn checker_case(ctx: &Ctx, ch: &mut Ch) -> Outcome {
    if ch.chance(1, 2) {
        let depth = 2 + ch.pick(5);
        let mut counter = 0;
        let text = gen_hole_puzzle(ch, depth, &mut vec![], &mut counter);
        if text.len() > 1500 {
            ctx.class("hole puzzle: longer than 1500 bytes, skipped");
            return Ok(());
        }
        let stage = pipeline(Some(ctx), &text, true)?;
        ctx.class("hole puzzle (no application, no definition: the checker cannot be made to loop)");
        classify(ctx, stage, &text);
        return Ok(());
    }
    let fuel = 1 + ch.pick(4);
    let cfg = SynCfg { paren_16: 1, ..SynCfg::default() };
    let mut g = SynGen::new(ch, cfg, &[]);
    let s = g.term(fuel).flatten();
    let text = sast::print_plain(&s);
    let stage = pipeline(Some(ctx), &text, true)?;
    classify(ctx, stage, &text);
    Ok(())
}

/// The CLI contract for `gram check FILE`.
pub fn cli_contract(run: &cli::Run, what: &str) -> Result<&'static str, Failure> {
    let out = String::from_utf8_lossy(&run.stdout);
    let err = String::from_utf8_lossy(&run.stderr);
    match run.status {
        0 => {
            if out.trim().is_empty() || !err.is_empty() {
                return Err(Failure::new(format!("exit 0 but stdout={out:?} stderr={err:?}"), what));
            }
            Ok("cli: exit 0 with the result on stdout")
        }
        1 => {
            if !out.is_empty() || !err.contains("[Error]") {
                return Err(Failure::new(format!("exit 1 but stdout={out:?} stderr={err:?}"), what));
            }
            Ok("cli: exit 1 with diagnostics on stderr")
        }
        other => Err(Failure::new(format!("`gram check` ended with status {other} (1000+n = signal n); stderr={:?}", crate::util::truncate(&err, 300)), what).with_sig("panic")),
    }
}

fn cli_case(ctx: &Ctx, ch: &mut Ch, scratch: &cli::Scratch) -> Outcome {
    let bytes: Vec<u8> = match ch.pick(8) {
        0 => {
            // Arbitrary bytes, mostly invalid UTF-8.
            (0..ch.pick(120)).map(|_| (ch.raw() >> 3) as u8).collect()
        }
        1 => vec![],
        2 => gen_unicode(ch).into_bytes(),
        3 | 4 => gen_soup(ch).into_bytes(),
        5 => {
            let mut b = sast::print_plain(&gen_sentence(ch)).into_bytes();
            if !b.is_empty() && ch.chance(1, 2) {
                let p = ch.pick(b.len());
                b[p] = 0xff;
            }
            b
        }
        6 => {
            let depth = 1 + ch.pick(1000);
            let mut s = "(".repeat(depth);
            s.push('1');
            s.push_str(&")".repeat(ch.pick(depth + 1)));
            s.into_bytes()
        }
        _ => sast::print_plain(&gen_sentence(ch)).into_bytes(),
    };
    scratch.write("input.g", &bytes);
    let run = cli::run("check", &scratch.dir, "input.g").map_err(|e| Failure::new(e, "cli"))?;
    if run.status == cli::TIMEOUT_STATUS {
        ctx.inconclusive("cli: `gram check` was still going after 10 s");
        return Ok(());
    }
    let what = format!("file bytes {:?}", String::from_utf8_lossy(&bytes));
    // Stack exhaustion is the allowed abnormal ending when the program itself diverges, which is
    // only possible once the type checker runs: i.e. when the file tokenizes and parses.
    if run.status >= 1000 && String::from_utf8_lossy(&run.stderr).contains("has overflowed its stack") {
        if let Ok(text) = std::str::from_utf8(&bytes) {
            if matches!(pipeline(Some(ctx), text, false), Ok(Stage::Accepted)) {
                ctx.inconclusive("cli: stack exhausted in the type checker on a program that parses (divergence written in the program is allowed)");
                return Ok(());
            }
        }
    }
    let class = cli_contract(&run, &what)?;
    ctx.class(class);
    if std::str::from_utf8(&bytes).is_err() {
        ctx.class("cli: invalid UTF-8 file");
    }
    ctx.nontrivial(&what);
    Ok(())
}

/// Inputs kept from earlier findings (shrunk by hand where the generator's case was larger).
const REGRESSIONS: &[&str] = &[
    // Found by C03's generated part (a perturbation had put `_` under an arrow): well typed, and
    // the checker crashes in the normaliser's context lookup. Recorded finding.
    "(g : type) => (k : (int -> g) -> int) => (x : int -> _) => k x + k x",
    "(g : type) => (x : int -> _) => (y : (int -> g) = x; a : (int -> g) = x; 0)",
    "( g : type ) => ( late1 : int -> _ ) => lateg2 : ( type -> int -> g ) = ( b : type ) => late1 ; a : ( int -> true ) = late1 ; n : ( int -> g ) = lateg2 bool ; - 0",
    // Neighbours that are handled.
    "(g : type) => (k : (int -> g) -> int) => (x : int -> _) => k x",
    "(x : int -> _) => (y : (int -> int) = x; a : (int -> int) = x; 0)",
    "(g : type) => (x : _) => (y : g = x; a : g = x; 0)",
];

pub fn def(tier: Tier) -> CheckDef {
    let rounds = tier.pick(4, 60);
    let max_len = tier.pick(4, 5);
    CheckDef {
        id: "C14",
        level: "exploration",
        rule: "library stages under catch_unwind in worker processes (an abort or hang is attributed to the announced case): proptest-generated Unicode strings, token soups and character-damaged sentences through tokenize -> parse -> type_check; every token string up to length 4/5 over the 28 kinds through parse (exhaustive); sentences with token deletions / insertions / substitutions, every prefix, doubled operators, dropped closing brackets, identifier names scrambled (names mentioned where they are not in scope, or bound twice), and unbalanced brackets of depth 1-200; scoping-valid mostly ill-typed generated programs through the checker; and `gram check` on files of arbitrary bytes (invalid UTF-8, empty, soups, damaged sentences, nesting up to 1000); oracle = no panic, Ok or a non-empty list of diagnostics that all start with [Error], CLI: exit 0 with the result on stdout and empty stderr, or exit 1 with empty stdout and [Error] on stderr; non-trivial = the input tokenizes (reaches the parser or the checker); distinct by text; in the checker part half of the programs are `hole puzzles` (lambdas with omitted annotations, conditionals, variables; no application and no definition), on which an abort of the checker or of printing its result is a violation, since such a program gives the checker nothing to loop on",
        assumptions: vec![
            "an abort or timeout inside type_check is counted as inconclusive (divergent computation written in the program is allowed); inside tokenize / parse it is a violation",
            "nesting deeper than about 3000 parentheses exhausts the CLI's 16 MiB stack; the CLI part stays at depth <= 1000",
        ],
        idle_limit_s: 120,
        needs_cli: true,
        fuzz: Some(("fuzz_pipeline", 600000)),
        parts: vec![
            Part {
                name: "fuzz",
                rounds: 0,
                run: Box::new(|_, _| {}),
                replay: Some(Box::new(|ctx, inp| match inp {
                    ReplayInput::Text(t) => pipeline(Some(ctx), t, false).map(|_| ()),
                    ReplayInput::Bytes(b) => { let t = String::from_utf8_lossy(b).into_owned(); pipeline(Some(ctx), &t, false).map(|_| ()) }
                    ReplayInput::Choices(_) => Err(Failure::new("the fuzz part replays raw artifacts", "")),
                })),
            },
            Part {
                name: "texts",
                rounds,
                run: Box::new(|ctx, r| ctx.prop("texts", r, 1500, 300, text_case)),
                replay: Some(Box::new(|ctx, inp| match inp {
                    ReplayInput::Choices(c) => text_case(ctx, &mut Ch::new(c)),
                    _ => Err(Failure::new("this part replays from choices", "")),
                })),
            },
            Part {
                name: "enum-tokens",
                rounds: 1,
                run: Box::new(move |ctx, _| {
                    let a = ALL_KINDS.len() as u64;
                    let mut total = 0u64;
                    for len in 0..=max_len {
                        let count = a.pow(len as u32);
                        let mut idx = u64::from(ctx.shard);
                        while idx < count {
                            let mut x = idx;
                            let kinds: Vec<K> = (0..len).map(|_| { let k = ALL_KINDS[(x % a) as usize]; x /= a; k }).collect();
                            let toks = concretise(&kinds);
                            total += 1;
                            match parse_tokens_only(&toks) {
                                Ok(Stage::Accepted) => {}
                                Ok(_) => ctx.nontrivial_enumerated(|| tok::render_plain(&toks).0),
                                Err(f) => {
                                    ctx.settle(Err(f));
                                    if ctx.peek_violations() >= 8 {
                                        return;
                                    }
                                }
                            }
                            idx += u64::from(ctx.nshards);
                        }
                    }
                    ctx.evaluated(total);
                    ctx.exhaustive("enum-tokens");
                    ctx.note(&format!("enum-tokens: every token string of length <= {max_len} over the 28 token kinds, through parse"));
                }),
                replay: None,
            },
            Part {
                name: "damaged",
                rounds,
                run: Box::new(|ctx, r| ctx.prop("damaged", r, 1500, 500, damaged_case)),
                replay: Some(Box::new(|ctx, inp| match inp {
                    ReplayInput::Choices(c) => damaged_case(ctx, &mut Ch::new(c)),
                    _ => Err(Failure::new("this part replays from choices", "")),
                })),
            },
            Part {
                name: "regressions",
                rounds: 1,
                run: Box::new(|ctx, _| {
                    if ctx.shard != 0 {
                        return;
                    }
                    for src in REGRESSIONS {
                        ctx.evaluated(1);
                        match pipeline(Some(ctx), src, true) {
                            Ok(stage) => classify(ctx, stage, src),
                            Err(f) => ctx.settle(Err(f)),
                        }
                    }
                }),
                replay: None,
            },
            Part {
                name: "checker",
                rounds,
                run: Box::new(|ctx, r| ctx.prop("checker", r, 800, 500, checker_case)),
                replay: Some(Box::new(|ctx, inp| match inp {
                    ReplayInput::Choices(c) => checker_case(ctx, &mut Ch::new(c)),
                    _ => Err(Failure::new("this part replays from choices", "")),
                })),
            },
            Part {
                name: "cli",
                rounds: tier.pick(1, 10),
                run: Box::new(|ctx, r| {
                    let scratch = cli::Scratch::new(&format!("c14-{}", ctx.shard));
                    ctx.prop("cli", r, 100, 400, |ctx, ch| cli_case(ctx, ch, &scratch));
                }),
                replay: Some(Box::new(|ctx, inp| match inp {
                    ReplayInput::Choices(c) => {
                        let scratch = cli::Scratch::new("c14-replay");
                        cli_case(ctx, &mut Ch::new(c), &scratch)
                    }
                    _ => Err(Failure::new("this part replays from choices", "")),
                })),
            },
        ],
    }
}
