//! C13 — Output is a deterministic function of the input file.

use crate::checks::c07::gen_sentence;
use crate::checks::c09::gen_soup;
use crate::cli;
use crate::gens::syn::{SynCfg, SynGen};
use crate::runner::{CheckDef, Ctx, Failure, Outcome, Part, ReplayInput, Tier, catch};
use crate::sast;
use crate::util::Ch;

pub const SIG_ORDER: &str = "definition-order-diagnostics-in-hash-order";

/// A program whose first definition mentions k later non-value definitions (each mention is a
/// separate "will not be available in time" diagnostic).
fn gen_order_program(ch: &mut Ch) -> String {
    let groups = 1 + ch.pick(3);
    let mut s = String::new();
    let mut final_names = vec![];
    for g in 0..groups {
        let k = 2 + ch.pick(5);
        let names: Vec<String> = (0..k).map(|i| format!("{}{g}_{i}", ["y", "zed", "w", "é"][i % 4])).collect();
        let head = format!("x{g}");
        let uses = names.join([" + ", " * ", " - "][ch.pick(3)]);
        let sep = if ch.chance(1, 2) { "; " } else { "\n" };
        match ch.pick(3) {
            // Direct: the definition itself mentions the later definitions.
            0 => s.push_str(&format!("{head} = {uses}{sep}")),
            // Indirect: it calls a function (a value) whose body mentions them.
            1 => s.push_str(&format!("{head} = fn{g} 1{sep}fn{g} = (arg{g} : int) => arg{g} + {uses}{sep}")),
            // Two levels of functions, the later definitions split between them.
            _ => {
                let (l, r) = names.split_at(names.len() / 2);
                s.push_str(&format!(
                    "{head} = fn{g} 1{sep}fn{g} = (arg{g} : int) => gn{g} arg{g} + {}{sep}gn{g} = (brg{g} : int) => brg{g} + {}{sep}",
                    if l.is_empty() { "0".to_owned() } else { l.join(" + ") },
                    r.join(" + ")
                ));
            }
        }
        for n in &names {
            s.push_str(&format!("{n} = 1 + {}{}", ch.pick(9), if ch.chance(1, 2) { "; " } else { "\n" }));
        }
        final_names.push(head);
    }
    s.push_str(&final_names.join(" + "));
    s.push('\n');
    s
}

fn gen_multi_error_program(ch: &mut Ch) -> String {
    match ch.pick(7) {
        6 => {
            // Faults whose diagnostics may look at everything that is in scope: several bound
            // names one edit apart from each other, and unbound / re-bound / ill-typed mentions of
            // names that are equally close to several of them.
            let stem = ["x", "val", "é", "item_", "n0"][ch.pick(5)];
            let k = 2 + ch.pick(5);
            let suffixes = ["1", "2", "3", "a", "b", "é", "_", "0", "z"];
            let first = ch.pick(suffixes.len());
            let names: Vec<String> = (0..k).map(|i| format!("{stem}{}", suffixes[(first + i) % suffixes.len()])).collect();
            let via_lambda = ch.chance(1, 3);
            let mut s = String::new();
            for (i, n) in names.iter().enumerate() {
                if via_lambda {
                    s.push_str(&format!("({n} : int) => "));
                } else {
                    s.push_str(&format!("{n} = {i}{}", if ch.chance(1, 2) { "; " } else { "\n" }));
                }
            }
            let mut uses = vec![];
            for _ in 0..1 + ch.pick(3) {
                // An unbound name at the same distance from several bound ones: another suffix,
                // the bare stem, a doubled suffix.
                uses.push(match ch.pick(4) {
                    0 => format!("{stem}{}", suffixes[(first + k + ch.pick(3)) % suffixes.len()]),
                    1 => stem.to_owned(),
                    2 => format!("{stem}{}", ["q", "Q", "7", "ü"][ch.pick(4)]),
                    _ => format!("{}{}", names[ch.pick(k)], ["1", "a", "_"][ch.pick(3)]),
                });
            }
            if ch.chance(1, 3) {
                uses.push(format!("({} = 1; 2)", names[ch.pick(k)]));
            }
            if ch.chance(1, 3) {
                uses.push(format!("(if {} then 1 else 2)", names[ch.pick(k)]));
            }
            s.push_str(&uses.join(" + "));
            s.push('\n');
            s
        }
        5 => {
            // One group that re-binds several names already in scope (parameters, or earlier
            // definitions of an enclosing group, or definitions of the same group).
            let k = 2 + ch.pick(5);
            let names: Vec<String> = (0..k).map(|i| format!("{}{i}", ["p", "é", "zed", "q_"][i % 4])).collect();
            let mut s = String::new();
            let via_lambda = ch.chance(1, 2);
            for n in &names {
                if via_lambda {
                    s.push_str(&format!("({n} : int) => "));
                } else {
                    s.push_str(&format!("{n} = {}\n", ch.pick(9)));
                }
            }
            let open = if via_lambda { "(" } else { "r = (" };
            s.push_str(open);
            // Re-definitions in a generated order, some of them twice.
            let m = k + ch.pick(3);
            for _ in 0..m {
                let n = &names[ch.pick(names.len())];
                s.push_str(&format!("{n} = {}{}", ch.pick(9), if ch.chance(1, 2) { "; " } else { "\n  " }));
            }
            s.push_str(&names.join(" + "));
            s.push_str(")\n");
            if !via_lambda {
                s.push_str("r\n");
            }
            s
        }
        0 => {
            // Several unbound names and re-bindings.
            let n = 2 + ch.pick(6);
            let mut s = String::from("a = 1\n");
            for i in 0..n {
                if ch.chance(1, 2) {
                    s.push_str(&format!("v{i} = nope{i} + a\n"));
                } else {
                    s.push_str(&format!("w{i} = (a => a) {i}\n"));
                }
            }
            s.push_str("a\n");
            s
        }
        1 => {
            // Several independent type errors.
            let n = 2 + ch.pick(5);
            let mut s = String::new();
            for i in 0..n {
                // With and without an annotation; the annotation may itself be at fault (not a
                // type, or not the type of the definition).
                let ann = ["", "", " : 5", " : bool", " : (2 * 3)", " : int", " : (1 < 2)"][ch.pick(7)];
                s.push_str(&format!("t{i}{ann} = {}\n", ["1 + true", "if 3 then 1 else 2", "5 5", "(x : int) => x + false", "true * 2", "1", "true"][ch.pick(7)]));
            }
            s.push_str("0\n");
            s
        }
        2 => {
            // Several unexpected symbols.
            let mut s = String::from("x = 1 ");
            for _ in 0..2 + ch.pick(5) {
                // Single code points, and clusters of several code points (flags, ZWJ sequences,
                // combining marks, skin tones): the latter are reported piecewise.
                s.push_str(["$ ", "@\n", "§ é ", "` ", "🙂 ", "🇺🇸 ", "👨\u{200D}👩\u{200D}👧 ", "$\u{301}\u{302} ", "👍🏽\n", "🇩🇪🇫🇷 ", "%^ "][ch.pick(11)]);
            }
            s.push_str("\nx\n");
            s
        }
        3 => {
            // Mixture: order errors plus scope errors.
            let mut s = gen_order_program(ch);
            s.insert_str(0, "q = missing1 + missing2\n");
            s
        }
        _ => {
            let cfg = SynCfg { paren_16: 1, ..SynCfg::default() };
            let fuel = 2 + ch.pick(3);
            let mut g = SynGen::new(ch, cfg, &[]);
            sast::print_plain(&g.term(fuel).flatten())
        }
    }
}

fn gen_accepted_program(ch: &mut Ch) -> String {
    let n = 1 + ch.pick(6);
    let mut s = String::new();
    let mut names: Vec<String> = vec![];
    for i in 0..n {
        let name = format!("{}{i}", ["v", "é", "f"][i % 3]);
        let rhs = if names.is_empty() || ch.chance(1, 3) {
            format!("{}", ch.pick(1000))
        } else {
            let a = &names[ch.pick(names.len())];
            format!("{a} {} {}", ["+", "*", "-"][ch.pick(3)], 1 + ch.pick(9))
        };
        s.push_str(&format!("{name} = {rhs}\n"));
        names.push(name);
    }
    let last = names.last().unwrap();
    s.push_str(&match ch.pick(4) {
        0 => format!("{last}\n"),
        1 => format!("if {last} < 10 then {last} else 0 - {last}\n"),
        2 => format!("((k : int) => k * {last}) 3\n"),
        _ => format!("(t : type) => (y : t) => {last}\n"),
    });
    s
}

fn lines_of(errs: &[crate::error::Error]) -> Vec<String> {
    errs.iter().map(|e| e.message.clone()).collect()
}

/// In-process companion: repeated calls must give the same diagnostics in the same order.
fn in_process_case(ctx: &Ctx, ch: &mut Ch) -> Outcome {
    let text = if ch.chance(1, 2) { gen_order_program(ch) } else { gen_multi_error_program(ch) };
    let runs: Result<Vec<Vec<String>>, String> = catch(|| {
        (0..10)
            .map(|_| {
                let toks = match crate::tokenizer::tokenize(None, &text) {
                    Ok(t) => t,
                    Err(e) => return lines_of(&e),
                };
                match crate::parser::parse(None, &text, &toks, &[]) {
                    Ok(_) => vec![],
                    Err(e) => lines_of(&e),
                }
            })
            .collect()
    });
    let runs = runs.map_err(|p| Failure::new(format!("panic: {p}"), text.clone()).with_sig("panic"))?;
    let first = &runs[0];
    for (i, r) in runs.iter().enumerate().skip(1) {
        if r != first {
            let mut a = first.clone();
            let mut b = r.clone();
            a.sort();
            b.sort();
            let permutation_of_order_diags = a == b && first.iter().zip(r).filter(|(x, y)| x != y).all(|(x, y)| x.contains("will not be available in time") && y.contains("will not be available in time"));
            let f = Failure::new(
                format!("call 1 and call {} of parse() on the same tokens return different diagnostics:\n  {:?}\n  {:?}", i + 1, heads(first), heads(r)),
                text.clone(),
            );
            return Err(if permutation_of_order_diags { f.with_sig(SIG_ORDER) } else { f });
        }
    }
    ctx.class(&format!("in-process: {} diagnostic(s), 10 identical calls", first.len().min(9)));
    if first.len() >= 2 {
        ctx.nontrivial(&text);
    }
    Ok(())
}

fn heads(v: &[String]) -> Vec<String> {
    v.iter().map(|m| m.lines().next().unwrap_or("").to_owned()).collect()
}

fn cli_case(ctx: &Ctx, ch: &mut Ch, scratch: &cli::Scratch, launches: usize) -> Outcome {
    let (kind, bytes): (&str, Vec<u8>) = match ch.pick(8) {
        0 | 1 => ("definition-order diagnostics", gen_order_program(ch).into_bytes()),
        2 | 3 => ("several diagnostics", gen_multi_error_program(ch).into_bytes()),
        4 | 5 => ("accepted program", gen_accepted_program(ch).into_bytes()),
        6 => ("syntax near-miss", {
            let mut t: Vec<char> = sast::print_plain(&gen_sentence(ch)).chars().collect();
            if !t.is_empty() {
                let p = ch.pick(t.len());
                t[p] = [')', '(', '=', ';', '+'][ch.pick(5)];
            }
            t.into_iter().collect::<String>().into_bytes()
        }),
        _ => ("bytes / soup", if ch.chance(1, 3) { vec![0xff, 0xfe, b'x'] } else if ch.chance(1, 3) { vec![] } else { gen_soup(ch).into_bytes() }),
    };
    scratch.write("input.g", &bytes);
    let shown = String::from_utf8_lossy(&bytes).into_owned();
    let mut diag_count = 0;
    for sub in ["check", "run"] {
        let first = cli::run(sub, &scratch.dir, "input.g").map_err(|e| Failure::new(e, "cli"))?;
        if first.status == cli::TIMEOUT_STATUS {
            ctx.inconclusive("cli: a run was still going after 10 s");
            continue;
        }
        if first.status >= 1000 {
            // Killed by a signal (stack exhaustion on a divergent program): the runtime's message
            // contains a thread id, so the outputs are not comparable.
            ctx.inconclusive("cli: the run was ended by a signal (divergent program)");
            continue;
        }
        if sub == "check" {
            diag_count = String::from_utf8_lossy(&first.stderr).matches("[Error]").count();
        }
        for k in 1..launches {
            let again = cli::run(sub, &scratch.dir, "input.g").map_err(|e| Failure::new(e, "cli"))?;
            if again.status == cli::TIMEOUT_STATUS || again.status >= 1000 {
                ctx.inconclusive("cli: a repeated run timed out or was ended by a signal");
                break;
            }
            if again != first {
                let (a, b) = (String::from_utf8_lossy(&first.stderr).into_owned(), String::from_utf8_lossy(&again.stderr).into_owned());
                let mut la: Vec<&str> = a.split("\n\n").collect();
                let mut lb: Vec<&str> = b.split("\n\n").collect();
                la.sort_unstable();
                lb.sort_unstable();
                let only_order = first.status == again.status && first.stdout == again.stdout && la == lb && a.contains("will not be available in time");
                let f = Failure::new(
                    format!(
                        "launch 1 and launch {} of `gram {sub}` differ: status {} vs {}; stdout equal: {}; stderr:\n--- 1\n{}\n--- {}\n{}",
                        k + 1, first.status, again.status, first.stdout == again.stdout, crate::util::truncate(&a, 1500), k + 1, crate::util::truncate(&b, 1500)
                    ),
                    shown.clone(),
                );
                return Err(if only_order { f.with_sig(SIG_ORDER) } else { f });
            }
        }
    }
    ctx.class(&format!("cli: {kind}"));
    if diag_count >= 3 && kind == "definition-order diagnostics" {
        ctx.class("cli: >= 3 definition-order diagnostics from one file");
    }
    if diag_count >= 2 {
        ctx.nontrivial(&shown);
    }
    Ok(())
}

pub fn def(tier: Tier) -> CheckDef {
    let launches = tier.pick(6, 12);
    let cli_rounds = tier.pick(1, 4);
    CheckDef {
        id: "C13",
        level: "exploration",
        rule: "proptest-generated files: programs whose first definition mentions 2-6 later non-value definitions, directly or through one or two functions defined after it (1-3 such groups), several unbound names / re-bindings, 2-6 independent type errors, several unexpected symbols, unbound / re-bound / ill-typed mentions of names that are one edit away from several bound names (diagnostics that may look at everything in scope), mixtures, random ill-typed programs, accepted programs, syntax near-misses, invalid UTF-8 and the empty file; each file is run 6 (quick) / 12 (thorough) times per sub-command (`check`, `run`) as separate processes (fresh hash seeds) and (exit status, stdout, stderr) must be byte-identical; in-process companion: parse() called 10 times on the same tokens must return the same diagnostics in the same order; non-trivial = the output has >= 2 diagnostics; distinct by file content",
        assumptions: vec![
            "a permutation of k diagnostics escapes one file with probability at most (1/k!)^(launches-1); hundreds of such files are generated per run",
        ],
        idle_limit_s: 300,
        needs_cli: true,
        fuzz: None,
        parts: vec![
            Part {
                name: "in-process",
                rounds: tier.pick(2, 20),
                run: Box::new(|ctx, r| ctx.prop("in-process", r, 500, 200, in_process_case)),
                replay: Some(Box::new(|ctx, inp| match inp {
                    ReplayInput::Choices(c) => in_process_case(ctx, &mut Ch::new(c)),
                    _ => Err(Failure::new("this part replays from choices", "")),
                })),
            },
            Part {
                name: "cli",
                rounds: cli_rounds,
                run: Box::new(move |ctx, r| {
                    let scratch = cli::Scratch::new(&format!("c13-{}", ctx.shard));
                    ctx.prop("cli", r, 40, 300, |ctx, ch| cli_case(ctx, ch, &scratch, launches));
                }),
                replay: Some(Box::new(move |ctx, inp| match inp {
                    ReplayInput::Choices(c) => {
                        let scratch = cli::Scratch::new("c13-replay");
                        cli_case(ctx, &mut Ch::new(c), &scratch, 20)
                    }
                    _ => Err(Failure::new("this part replays from choices", "")),
                })),
            },
        ],
    }
}
