//! C03 — The type checker never accepts an ill-typed program.

use crate::dterm::{D, Enumerator, Op};
use crate::gens::mutate;
use crate::gens::prog::{self, ProgCfg};
use crate::pipe::{self, Front};
use crate::runner::{CheckDef, Ctx, Failure, Outcome, Part, ReplayInput, Tier};
use crate::sast::{self, Def, S};
use crate::typed::{self, ElabVerdict, RefType};
use crate::util::Ch;

pub const SIG_ANNOTATION: &str = "let-annotation-unchecked";
pub const SIG_HOLE_IDENTITY: &str = "hole-identity-lost-under-substitution";

#[derive(Clone, Copy, PartialEq, Eq, Debug)]
pub enum Verdict {
    AcceptedSound,
    AcceptedWithHoles,
    Rejected,
    Inconclusive,
}

/// Soundness oracle for one source text. `explicit`: the source has no holes / omitted
/// annotations, so the reference checker's verdict on the *source* is meaningful too.
pub fn check_text(ctx: &Ctx, s: Option<&S>, text: &str, perturbed: bool) -> Result<Verdict, Failure> {
    // Reference verdict on the source (only meaningful for explicit programs).
    let ref_verdict = s.map(|s| typed::ref_infer(s, true).2);
    // Divergent programs may diverge in gram's checker: an abort is inconclusive here.
    ctx.announce(false, None, text);
    let r = pipe::with_front(text, |front| -> Result<Verdict, Failure> {
        match front {
            Front::TokenizeErr(_) | Front::ParseErr(_) | Front::TypeErr { .. } => Ok(Verdict::Rejected),
            Front::Accepted { elaborated, ty, hole_copies, .. } => {
                // Contrapositive: an explicit program the reference checker rejects must be rejected.
                if let Some(RefType::Ill(rule, why)) = &ref_verdict {
                    let lenient = s.map(|s| matches!(typed::ref_infer(s, false).2, RefType::Ok(_))).unwrap_or(false);
                    let f = Failure::new(
                        format!("accepted (at type `{ty}`) although the program is ill typed — {rule}: {why}"),
                        text,
                    );
                    return Err(if lenient { f.with_sig(SIG_ANNOTATION) } else { f });
                }
                match typed::check_elaborated(elaborated, ty, true) {
                    ElabVerdict::Ok => Ok(Verdict::AcceptedSound),
                    ElabVerdict::Hole => Ok(Verdict::AcceptedWithHoles),
                    ElabVerdict::Fuel => Ok(Verdict::Inconclusive),
                    ElabVerdict::Bad(why) => {
                        let f = Failure::new(format!("accepted, but {why}; elaborated term `{}`", crate::util::truncate(&elaborated.to_string(), 400)), text);
                        // Attribution to the two recorded findings, by their signatures.
                        if matches!(typed::check_elaborated(elaborated, ty, false), ElabVerdict::Ok) {
                            Err(f.with_sig(SIG_ANNOTATION))
                        } else if *hole_copies > 0 {
                            Err(f.with_sig(SIG_HOLE_IDENTITY))
                        } else if text.contains("-> _") {
                            // The other recorded finding about holes: one written under a binder
                            // of a type is solved with indices valid at the use, not where it stands.
                            Err(f.with_sig(crate::runner::SIG_HOLE_UNDER_BINDER))
                        } else {
                            Err(f)
                        }
                    }
                }
            }
        }
    });
    let v = match r {
        Err(p) => return Err(Failure::new(p, text).with_sig("panic")),
        Ok(v) => v?,
    };
    if let (Some(RefType::Ill(rule, _)), Verdict::Rejected) = (&ref_verdict, v) {
        ctx.class(&format!("rejected by both; reference rule violated: {rule}"));
    }
    let _ = perturbed;
    Ok(v)
}

fn record(ctx: &Ctx, v: Verdict, text: &str, perturbed: bool, interesting: bool) {
    match v {
        Verdict::AcceptedSound => {
            ctx.class(if perturbed { "perturbed program accepted; elaboration re-checked" } else { "accepted; elaboration re-checked" });
            if perturbed || interesting {
                ctx.nontrivial(text);
            }
        }
        Verdict::AcceptedWithHoles => ctx.class("accepted with unresolved holes (outside the explicit checker's domain)"),
        Verdict::Rejected => ctx.class(if perturbed { "perturbed program rejected" } else { "rejected" }),
        Verdict::Inconclusive => ctx.inconclusive("reference checker ran out of fuel on the elaborated term"),
    }
}

fn has_app_and_binder(s: &S) -> bool {
    fn app(s: &S) -> bool {
        match s {
            S::App(..) => true,
            S::Lam { ann, body, .. } => ann.as_ref().is_some_and(|a| app(a)) || app(body),
            S::Pi { dom, cod, .. } => app(dom) || app(cod),
            S::Bin(_, a, b) => app(a) || app(b),
            S::Neg(a) | S::Paren(a) => app(a),
            S::If(a, b, c) => app(a) || app(b) || app(c),
            S::Let { defs, body } => defs.iter().any(|d| d.ann.as_ref().is_some_and(app) || app(&d.def)) || app(body),
            _ => false,
        }
    }
    app(s) && crate::checks::c05::count_binders(s) >= 1
}

fn generated_case(ctx: &Ctx, ch: &mut Ch) -> Outcome {
    let cfg = ProgCfg { forward_aliases: true, ..ProgCfg::default() };
    let kind = ch.pick(4);
    let fuel = 2 + ch.pick(4);
    let Some(p) = prog::gen_program(ch, cfg, kind, fuel) else {
        ctx.class("generator: gave up");
        return Ok(());
    };
    if p.text.len() > 4000 {
        ctx.class("skipped: longer than 4000 bytes");
        return Ok(());
    }
    // 70% perturbed; of those and of the rest, a share is also erased (holes, omitted annotations).
    let mut s = p.s.clone();
    let mut perturbed = false;
    let mut explicit = true;
    if ch.chance(7, 10) && prog::perturbation_safe(&p) {
        let n = 1 + ch.pick(2);
        for _ in 0..n {
            if ch.chance(1, 4) {
                if let Some(t) = mutate::swap_variable_with(&s, ch, true) {
                    s = t;
                    ctx.class("perturbation: a variable replaced by another one in scope");
                    continue;
                }
            }
            let (t, label) = mutate::perturb(&s, ch);
            s = t;
            ctx.class(&format!("perturbation: {label}"));
        }
        perturbed = true;
    }
    if ch.chance(1, 3) {
        let mut erased = 0;
        s = prog::erase(&s, ch, &mut erased);
        if erased > 0 {
            explicit = false;
        }
    }
    let s = s.flatten();
    // A perturbation may have created a scoping problem (e.g. `mutp` twice); the parser settles it.
    let text = sast::print_plain(&s);
    let v = check_text(ctx, if explicit { Some(&s) } else { None }, &text, perturbed)?;
    record(ctx, v, &text, perturbed, has_app_and_binder(&s));
    Ok(())
}

/// Closed de Bruijn term -> surface tree with names chosen by binder depth (no shadowing).
pub fn d_to_s(d: &D, depth: usize) -> S {
    let b = |x: &D, dp: usize| Box::new(d_to_s(x, dp));
    let name = |k: usize| format!("v{k}");
    match d {
        D::Type => S::Type,
        D::Int => S::Int,
        D::Bool => S::Bool,
        D::True => S::True,
        D::False => S::False,
        D::Lit(n) => S::Lit(n.clone()),
        D::Hole => S::Var("_".into()),
        D::Var(i) => S::Var(name(depth - 1 - i)),
        D::Lam(im, a, x) => S::Lam { name: name(depth), implicit: *im, ann: Some(b(a, depth)), body: b(x, depth + 1) },
        D::Pi(im, a, x) => S::Pi { name: Some(name(depth)), implicit: *im, dom: b(a, depth), cod: b(x, depth + 1) },
        D::App(f, a) => S::App(b(f, depth), b(a, depth)),
        D::Bin(op, x, y) => S::Bin(*op, b(x, depth), b(y, depth)),
        D::Neg(x) => S::Neg(b(x, depth)),
        D::If(c, t, e) => S::If(b(c, depth), b(t, depth), b(e, depth)),
        D::Let(defs, body) => {
            let n = defs.len();
            S::Let {
                defs: defs.iter().enumerate().map(|(i, (a, x))| Def { name: name(depth + i), ann: Some(d_to_s(a, depth + n)), def: d_to_s(x, depth + n) }).collect(),
                body: b(body, depth + n),
            }
        }
    }
}

pub fn enum_leaves() -> Vec<D> {
    vec![D::Type, D::Int, D::lit(1), D::True, D::Var(0), D::Var(1)]
}

/// Is every free index bound (closed term)?
pub fn closed(d: &D) -> bool {
    let mut s = std::collections::BTreeSet::new();
    d.free(0, &mut s);
    s.is_empty()
}

fn enumerate_part(ctx: &Ctx, max_size: usize) {
    let mut e = Enumerator::new(enum_leaves());
    e.upto(max_size);
    let mut idx = 0u64;
    let mut total = 0u64;
    let mut accepted = 0u64;
    for n in 1..=max_size {
        for d in &e.by_size[n] {
            if !closed(d) {
                continue;
            }
            idx += 1;
            if idx % u64::from(ctx.nshards) != u64::from(ctx.shard) {
                continue;
            }
            // Only one implicit flag variant is interesting for soundness of small terms.
            let s = d_to_s(d, 0).flatten();
            let text = sast::print_plain(&s);
            total += 1;
            match check_text(ctx, Some(&s), &text, false) {
                Ok(Verdict::AcceptedSound) => {
                    accepted += 1;
                    if n >= 3 {
                        ctx.nontrivial_enumerated(|| text.clone());
                    }
                }
                Ok(Verdict::Rejected) => {
                    if n >= 3 {
                        ctx.nontrivial_enumerated(|| format!("(rejected) {text}"));
                    }
                }
                Ok(_) => {}
                Err(f) => {
                    ctx.settle(Err(f));
                    if ctx.peek_violations() >= 8 {
                        return;
                    }
                }
            }
        }
    }
    ctx.evaluated(total);
    ctx.class_n("enumerated closed explicit programs", total);
    ctx.class_n("enumerated closed explicit programs accepted by gram", accepted);
    ctx.exhaustive("enum-small");
    ctx.note(&format!("enum-small: every closed explicit program of size <= {max_size} over the leaves type, int, 1, true and two variables"));
}

/// Conversion inside types, exhaustively for a small family: a value of type `p A` is used where
/// `p B` is required, for every pair of same-former index expressions over {x, y, 1, 2}.
fn indexed_family_part(ctx: &Ctx) {
    let atoms = ["x", "y", "1", "2"];
    let mut int_bodies: Vec<String> = vec![];
    let mut bool_bodies: Vec<String> = vec![];
    for a in atoms {
        for c in atoms {
            for op in ["+", "-", "*", "/"] {
                int_bodies.push(format!("{a} {op} {c}"));
            }
            for op in ["<", "<=", "==", ">", ">="] {
                bool_bodies.push(format!("{a} {op} {c}"));
            }
            int_bodies.push(format!("if b then {a} else {c}"));
            int_bodies.push(format!("f {a} {c}"));
        }
        int_bodies.push(format!("- {a}"));
    }
    let key = |s: &String| s.split(' ').nth(if s.starts_with("if") || s.starts_with("f ") || s.starts_with('-') { 0 } else { 1 }).unwrap_or("").to_owned();
    let mut idx = 0u64;
    let mut total = 0u64;
    for (bodies, fam) in [(&int_bodies, "int"), (&bool_bodies, "bool")] {
        for a in bodies.iter() {
            for b in bodies.iter() {
                // Int-indexed: same former only (x + y vs x - y adds nothing); bool-indexed: every
                // pair, so that one comparison operator is also set against another.
                if fam == "int" && key(a) != key(b) {
                    continue;
                }
                idx += 1;
                if idx % u64::from(ctx.nshards) != u64::from(ctx.shard) {
                    continue;
                }
                let text = format!(
                    "(p : {fam} -> type) => (x : int) => (y : int) => (b : bool) => (f : int -> int -> int) => (a : p ({a})) => (r : p ({b}) = a; r)"
                );
                total += 1;
                match check_text(ctx, None, &text, true) {
                    Ok(Verdict::AcceptedSound) => ctx.nontrivial_enumerated(|| format!("(accepted) {text}")),
                    Ok(Verdict::Rejected) => ctx.nontrivial_enumerated(|| format!("(rejected) {text}")),
                    Ok(_) => {}
                    Err(f) => {
                        ctx.settle(Err(f));
                        if ctx.peek_violations() >= 6 {
                            return;
                        }
                    }
                }
            }
        }
    }
    ctx.evaluated(total);
    ctx.exhaustive("indexed-family");
    ctx.note("indexed-family: `a : p A` used at `p B` for every pair of same-former integer index expressions and every pair of comparison index expressions over {x, y, 1, 2} (p : int -> type or bool -> type, lambda-bound)");
}

const REGRESSIONS: [&str; 4] = [
    "x : ((y : 5) => int) 3 = 4; x",
    "((f : int -> _) => f 1 + 1) ((x : int) => true)",
    "x : bool = 0 < 7; y : f = 4; f : type = g; g : type = int; a : bool = false; y",
    "x : 5 = 4; x",
];

/// Programs in which the type of an un-annotated parameter `w` would have to mention a variable
/// bound *after* it: `w => (a : type) => x => if c then W[w] else X`, where both branches are
/// functions of the same shape, `W` returns `w` and `X` returns something of type `a`. The route by
/// which `a` reaches the type of `w` varies: directly, under one to three binders, through the
/// still unsolved type of another un-annotated parameter (of the branch, or `x` itself), with the
/// branches in either order. No annotation of `w` makes such a program well typed.
pub fn escape_program(ch: &mut Ch) -> String {
    let use_c = ch.chance(1, 2);
    let cond = if use_c { "c" } else { ["true", "false"][ch.pick(2)] };
    let mut s = String::new();
    if use_c {
        s.push_str("(c : bool) => ");
    }
    // `w`'s annotation may also be a function type whose codomain is a hole: a hole written
    // *under a binder* (the arrow's); both branches then return functions from int.
    let w_arrow = ch.chance(1, 5);
    s.push_str(if w_arrow { ["(w : int -> _) => ", "(w : (z0 : int) -> _) => "][ch.pick(2)] } else { ["w => ", "(w : _) => ", "{w} => "][ch.pick(3)] });
    for i in 0..ch.pick(3) {
        s.push_str(&[format!("(n{i} : int) => "), format!("(t{i} : type) => ")][ch.pick(2)]);
    }
    s.push_str("(a : type) => ");
    if ch.chance(1, 3) {
        s.push_str("(m : int) => ");
    }
    let x_annotated = ch.chance(3, 4);
    s.push_str(if x_annotated { "(x : a) => " } else { "x => " });
    // The two branches: k parameters of the same types on both sides.
    let k = ch.pick(4);
    let tys: Vec<&str> = (0..k).map(|_| ["a", "int", "bool", "type", "a"][ch.pick(5)]).collect();
    let mut wside = String::new();
    let mut xside = String::new();
    let mut of_type_a = vec!["x".to_owned()];
    // The branch that returns `w` may take only the first j of the k parameters: `w` then has to
    // be a function of the remaining ones, and its type holds the escaping variable under binders.
    let j = if k > 0 && ch.chance(2, 3) { ch.pick(k) } else { k };
    for (i, t) in tys.iter().enumerate() {
        if i < j {
            wside.push_str(&format!("(q{i} : {t}) => "));
        }
        if ch.chance(1, 2) {
            xside.push_str(&format!("p{i} => "));
        } else {
            xside.push_str(&format!("(p{i} : {t}) => "));
        }
        if *t == "a" {
            of_type_a.push(format!("p{i}"));
        }
    }
    wside.push('w');
    // (mostly a parameter of the branch, if one has type `a`)
    let pick_a = |ch: &mut Ch| if of_type_a.len() > 1 && ch.chance(2, 3) { of_type_a[1 + ch.pick(of_type_a.len() - 1)].clone() } else { of_type_a[ch.pick(of_type_a.len())].clone() };
    let body = match ch.pick(3) {
        0 => pick_a(ch),
        1 => format!("if {cond} then {} else {}", pick_a(ch), pick_a(ch)),
        _ => format!("(r : a = {}; r)", pick_a(ch)),
    };
    if w_arrow {
        xside.push_str("(z1 : int) => ");
    }
    xside.push_str(&body);
    let (l, r) = if ch.chance(1, 2) { (wside, xside) } else { (xside, wside) };
    let expr = format!("if {cond} then ({l}) else ({r})");
    // With `x` un-annotated, something may say what its type is, before or after.
    let expr = if x_annotated {
        expr
    } else {
        match ch.pick(6) {
            0 => expr,
            1..=3 => format!("(y : a = x; {expr})"),
            _ => format!("(res = {expr}; y : a = x; res)"),
        }
    };
    s.push_str(&expr);
    s
}

fn escape_case(ctx: &Ctx, ch: &mut Ch) -> Outcome {
    let text = escape_program(ch);
    match check_text(ctx, None, &text, true)? {
        Verdict::Rejected => {
            ctx.class("scope escape: rejected");
            ctx.nontrivial(&text);
        }
        Verdict::AcceptedSound => ctx.class("scope escape: accepted, and the elaborated term is well typed for the reference checker"),
        Verdict::AcceptedWithHoles => ctx.class("scope escape: accepted with unresolved holes (outside the explicit checker's domain)"),
        Verdict::Inconclusive => ctx.inconclusive("reference checker ran out of fuel on the elaborated term"),
    }
    Ok(())
}

pub fn def(tier: Tier) -> CheckDef {
    let rounds = tier.pick(40, 400);
    let max_size = tier.pick(5, 6);
    CheckDef {
        id: "C03",
        level: "exploration",
        rule: "type-directed generated programs, 70% of them perturbed by 1-2 type-breaking mutations at random nodes (12 kinds: a subterm replaced by a literal / type / lambda, wrapped in an operator, a condition, an application, ...), a third also erased (omitted annotations, `_`), plus every closed explicit program up to size 5 (quick) / 6 (thorough) over a small vocabulary (exhaustive), plus every program `(a : p A) => (r : p B = a; r)` for same-former integer (and all pairs of comparison) index expressions A, B over {x, y, 1, 2} under a lambda-bound family p (exhaustive: conversion inside types), plus C04's exhaustive family of identity functions annotated `T1 -> T2` for all pairs of small type expressions (conditionals with every comparison operator, type-level functions, definition groups of different lengths), plus generated `scope escape` programs in which the type of an un-annotated parameter would have to mention a variable bound after it (directly, under binders, or through the still unsolved type of another un-annotated parameter); oracle = whenever gram accepts, an independent checker for explicit terms (R-core, conversion by NbE) must find the *elaborated* term well scoped and well typed with a type convertible with the reported one; and an explicit program that R-core rejects must be rejected by gram; the evidence counts, per typing rule, the programs both sides reject for that rule; non-trivial = accepted and perturbed, or accepted with an application and a binder, or an enumerated program of size >= 3; distinct by text",
        assumptions: vec![
            "the typing rules are those of R-core (see C05); elaborated terms that still contain unresolved holes are outside the explicit checker's domain and are counted, not judged",
            "fuel exhaustion of the reference checker and aborts of gram's checker on divergent perturbed programs are inconclusive",
        ],
        idle_limit_s: 45,
        needs_cli: false,
        fuzz: None,
        parts: vec![
            Part {
                name: "regressions",
                rounds: 1,
                run: Box::new(|ctx, _| {
                    if ctx.shard != 0 {
                        return;
                    }
                    for src in REGRESSIONS {
                        ctx.evaluated(1);
                        match check_text(ctx, None, src, false) {
                            Ok(v) => record(ctx, v, src, false, true),
                            Err(f) => ctx.settle(Err(f)),
                        }
                    }
                }),
                replay: None,
            },
            Part {
                name: "generated",
                rounds,
                run: Box::new(|ctx, r| ctx.prop("generated", r, 400, 600, generated_case)),
                replay: Some(Box::new(|ctx, inp| match inp {
                    ReplayInput::Choices(c) => generated_case(ctx, &mut Ch::new(c)),
                    _ => Err(Failure::new("this part replays from choices", "")),
                })),
            },
            Part {
                name: "scope-escape",
                rounds: tier.pick(10, 100),
                run: Box::new(|ctx, r| ctx.prop("scope-escape", r, 400, 40, escape_case)),
                replay: Some(Box::new(|ctx, inp| match inp {
                    ReplayInput::Choices(c) => escape_case(ctx, &mut Ch::new(c)),
                    _ => Err(Failure::new("this part replays from choices", "")),
                })),
            },
            Part {
                name: "indexed-family",
                rounds: 1,
                run: Box::new(|ctx, _| indexed_family_part(ctx)),
                replay: None,
            },
            Part {
                name: "coercions",
                rounds: 1,
                run: Box::new(|ctx, _| {
                    // C04's exhaustive family of identity functions annotated `T1 -> T2`: gram may
                    // accept one only if the reference checker does.
                    let (total, ntypes) = crate::checks::c04::for_each_coercion(ctx.shard, ctx.nshards, |decls, call, _| {
                        let text = format!("{decls}{call}");
                        match check_text(ctx, None, &text, true) {
                            Ok(Verdict::AcceptedSound) => ctx.nontrivial_enumerated(|| format!("(accepted) {text}")),
                            Ok(_) => {}
                            Err(f) => {
                                ctx.settle(Err(f));
                                if ctx.peek_violations() >= 6 {
                                    return false;
                                }
                            }
                        }
                        true
                    });
                    ctx.evaluated(total);
                    ctx.exhaustive("coercions");
                    ctx.note(&format!("coercions: an identity function annotated `(b : bool) -> (x : int) -> T1 -> T2` for every pair of {ntypes} small type expressions (see C04)"));
                }),
                replay: None,
            },
            Part {
                name: "enum-small",
                rounds: 1,
                run: Box::new(move |ctx, _| enumerate_part(ctx, max_size)),
                replay: None,
            },
        ],
    }
}
