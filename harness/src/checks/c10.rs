//! C10 — Comments, spacing and line layout do not change a program's meaning.

use crate::checks::c09;
use crate::dterm::D;
use crate::gens::layout::{self, LayoutStats};
use crate::gens::syn::{SynCfg, SynGen};
use crate::refs::lex::{self, Tri};
use crate::runner::{CheckDef, Ctx, Failure, Outcome, Part, ReplayInput, Tier, catch};
use crate::sast::{self, S};
use crate::tok::{self, K, Tok};
use crate::util::Ch;

fn same_stream(a: &[Tok], b: &[Tok]) -> bool {
    a.len() == b.len()
        && a.iter().zip(b).all(|(x, y)| (x.kind() == K::Terminator && y.kind() == K::Terminator) || x == y)
}

fn show(toks: &[Tok]) -> String {
    toks.iter()
        .map(|t| match t {
            Tok::LineBreak => "⏎".to_owned(),
            t => t.plain(),
        })
        .collect::<Vec<_>>()
        .join(" ")
}

fn fail(text: &str, msg: String) -> Failure {
    let f = Failure::new(msg, format!("{text:?}"));
    if c09::comment_signature(text, &lex::lex(text)) { f.with_sig(c09::SIG_COMMENT) } else { f }
}

/// Outcome of running the front end on a text: token stream and (structure, names) of the parse.
struct Front {
    toks: Vec<Tok>,
    parsed: Result<(D, Vec<String>), Vec<String>>,
}

fn front(text: &str, context: &[&str]) -> Result<Front, Failure> {
    catch(|| {
        let toks = crate::tokenizer::tokenize(None, text).map_err(|e| e.iter().map(|x| x.message.clone()).collect::<Vec<_>>())?;
        let stream: Vec<Tok> = toks.iter().map(tok::from_gram).collect();
        let parsed = match crate::parser::parse(None, text, &toks, context) {
            Ok(term) => {
                let mut names = vec![];
                crate::bridge::collect_names(&term, &mut names);
                Ok((D::from_gram(&term), names))
            }
            Err(errs) => Err(errs.iter().map(|e| e.message.lines().next().unwrap_or("").to_owned()).collect()),
        };
        Ok(Front { toks: stream, parsed })
    })
    .map_err(|p| Failure::new(format!("front end panicked: {p}"), format!("{text:?}")).with_sig("panic"))?
    .map_err(|errs: Vec<String>| fail(text, format!("tokenize failed on a layout of a valid token list: {errs:?}")))
}

fn classify(ctx: &Ctx, st: &LayoutStats) {
    if st.empty_comments > 0 {
        ctx.class("layout has an empty comment");
    }
    if st.multibyte_comments > 0 {
        ctx.class("layout has a comment ending in a multi-byte character");
    }
    if st.eof_comment {
        ctx.class("layout has a comment at end of file");
    }
    if st.break_after_operator > 0 {
        ctx.class("line break after an operator / opening bracket");
    }
    if st.break_before_operator > 0 {
        ctx.class("line break before an operator");
    }
    if st.break_before_close > 0 {
        ctx.class("line break before a closing bracket");
    }
    if st.terminators_as_breaks > 0 {
        ctx.class("terminator written as line break(s)");
    }
}

/// All layouts of one token list must give the same stream and the same parse as the plain one.
fn relayout(ctx: &Ctx, ch: &mut Ch, toks: &[Tok], context: &[&str], layouts: usize) -> Outcome {
    let (plain, _) = tok::render_plain(toks);
    let base = front(&plain, context)?;
    if !same_stream(&base.toks, toks) {
        return Err(fail(&plain, format!("plain layout tokenizes to {} instead of {}", show(&base.toks), show(toks))));
    }
    for _ in 0..layouts {
        let (text, st) = layout::render(toks, ch);
        let f = front(&text, context)?;
        if !same_stream(&f.toks, toks) {
            return Err(fail(&text, format!("token stream changed under re-layout: got {} for {}", show(&f.toks), show(toks))));
        }
        match (&base.parsed, &f.parsed) {
            (Ok(a), Ok(b)) => {
                if a != b {
                    return Err(fail(&text, format!("parse differs from the plain layout `{plain}`")));
                }
            }
            (Err(a), Err(b)) => {
                if a != b {
                    return Err(fail(&text, format!("diagnostics differ from the plain layout: {a:?} vs {b:?}")));
                }
            }
            (a, b) => {
                return Err(fail(&text, format!("plain layout `{plain}` parses to {:?} but this layout to {:?}", a.is_ok(), b.is_ok())));
            }
        }
        classify(ctx, &st);
        if st.comments >= 1 && st.nonsep_breaks >= 1 && st.terminators >= 1 {
            ctx.nontrivial(&format!("{text:?}"));
        }
    }
    Ok(())
}

pub fn gen_tokens_pub(ch: &mut Ch) -> Vec<Tok> { gen_tokens(ch) }
fn gen_tokens(ch: &mut Ch) -> Vec<Tok> {
    let fuel = 1 + ch.pick(4);
    let cfg = SynCfg { paren_16: 2, ..SynCfg::default() };
    let mut g = SynGen::new(ch, cfg, &["c0"]);
    let s = g.term(fuel).flatten();
    // Wrap in a definition now and then so that most programs have a terminator.
    let s = if ch.chance(1, 2) {
        sast::let_(vec![("top", None, s)], sast::var("top")).flatten()
    } else {
        s
    };
    sast::print_tokens(&s)
}

fn relayout_case(ctx: &Ctx, ch: &mut Ch) -> Outcome {
    let toks = gen_tokens(ch);
    if toks.len() > 150 {
        ctx.class("skipped: more than 150 tokens");
        return Ok(());
    }
    relayout(ctx, ch, &toks, &["c0"], 3)
}

/// Negative control: a line break between a token that can end an expression and one that can
/// start one *is* a separator.
fn inserted_break_case(ctx: &Ctx, ch: &mut Ch) -> Outcome {
    let toks = gen_tokens(ch);
    if toks.len() > 150 || toks.len() < 2 {
        return Ok(());
    }
    let sites: Vec<usize> = (0..toks.len() - 1)
        .filter(|i| {
            toks[*i].kind() != K::Terminator
                && toks[i + 1].kind() != K::Terminator
                && lex::terminator_between(toks[*i].kind(), toks[i + 1].kind()) == Tri::Yes
        })
        .collect();
    if sites.is_empty() {
        ctx.class("no END/START adjacency in this program");
        return Ok(());
    }
    let site = sites[ch.pick(sites.len())];
    let mut text = String::new();
    for (i, t) in toks.iter().enumerate() {
        text.push_str(&t.plain());
        if i == site {
            text.push_str(["\n", " \n ", "\n\n", " # c\n"][ch.pick(4)]);
        } else {
            text.push(' ');
        }
    }
    let mut expected = toks.clone();
    expected.insert(site + 1, Tok::LineBreak);
    let got = catch(|| crate::tokenizer::tokenize(None, &text).map(|t| t.iter().map(tok::from_gram).collect::<Vec<_>>()))
        .map_err(|p| Failure::new(format!("tokenize panicked: {p}"), format!("{text:?}")).with_sig("panic"))?;
    match got {
        Ok(stream) => {
            if !same_stream(&stream, &expected) {
                return Err(fail(&text, format!("a line break between `{}` and `{}` must separate: got {}", toks[site].plain(), toks[site + 1].plain(), show(&stream))));
            }
            ctx.class("inserted line break became a terminator");
            ctx.nontrivial(&format!("{text:?}"));
            Ok(())
        }
        Err(e) => Err(fail(&text, format!("tokenize failed: {:?}", e.iter().map(|x| x.message.clone()).collect::<Vec<_>>()))),
    }
}

/// One fuzz iteration (used by the libFuzzer target): decode the choices into a program and three
/// layouts and apply the re-layout oracle.
pub fn fuzz_one(choices: &[u16]) -> Result<(), Failure> {
    let ctx = Ctx::new("C10", Tier::Quick, 0, 0, 1);
    let mut ch = Ch::new(choices);
    let toks = gen_tokens(&mut ch);
    if toks.len() > 150 {
        return Ok(());
    }
    relayout(&ctx, &mut ch, &toks, &["c0"], 2)
}

const ALPHA_LAYOUT: [&str; 11] = ["a", "1", "+", "(", ")", ";", "#", "\n", " ", "\r", "é"];

pub fn def(tier: Tier) -> CheckDef {
    let rounds = tier.pick(30, 300);
    let l = tier.pick(6, 7);
    CheckDef {
        id: "C10",
        level: "exploration",
        rule: "proptest-generated programs (and /repo/examples) whose token lists are rendered under 3 generated layouts each: every gap filled with nothing / spaces / tabs / NBSP / CRLF / comments (empty, ASCII, ending in multi-byte characters, containing `#` and token spellings) and 1-3 line breaks wherever the C10 rule says they do not separate, terminators written as `;` or as line breaks, leading and trailing layout incl. a final comment without line break; oracle = same token stream (terminator kind aside) and same parse as the plain one-space layout, plus the converse (an inserted line break between an expression-ending and an expression-starting token must appear as a terminator) and the reference lexer on all strings up to length 6/7 over a layout alphabet; non-trivial = layout with >= 1 comment and >= 1 non-separating line break on a program with >= 1 terminator, or an inserted-break case; distinct by text",
        assumptions: vec![
            "`-` counts as an operator for the 'line break before an operator' clause (so `a⏎- b` is a subtraction), as the property statement says",
            "a line break directly after `;` is a second terminator (`;` can end and start an expression), so layouts never put one there",
        ],
        idle_limit_s: 300,
        needs_cli: false,
        fuzz: Some(("fuzz_layout", 150000)),
        parts: vec![
            Part {
                name: "fuzz",
                rounds: 0,
                run: Box::new(|_, _| {}),
                replay: Some(Box::new(|_, inp| match inp {
                    ReplayInput::Bytes(data) => {
                        let choices: Vec<u16> = data.chunks(2).map(|c| u16::from(c[0]) << 8 | u16::from(*c.get(1).unwrap_or(&0))).collect();
                        fuzz_one(&choices)
                    }
                    ReplayInput::Text(t) => {
                        let choices: Vec<u16> = t.as_bytes().chunks(2).map(|c| u16::from(c[0]) << 8 | u16::from(*c.get(1).unwrap_or(&0))).collect();
                        fuzz_one(&choices)
                    }
                    ReplayInput::Choices(c) => fuzz_one(c),
                })),
            },
            Part {
                name: "examples",
                rounds: 1,
                run: Box::new(|ctx, _| {
                    let dir = format!("{}/examples", crate::GRAM_REPO);
                    let mut files: Vec<_> = std::fs::read_dir(&dir).map(|d| d.filter_map(Result::ok).map(|e| e.path()).collect()).unwrap_or_default();
                    files.sort();
                    for (n, f) in files.iter().enumerate() {
                        if n as u32 % ctx.nshards != ctx.shard {
                            continue;
                        }
                        let Ok(text) = std::fs::read_to_string(f) else { continue };
                        let Some(toks) = lex::expected_stream(&text) else { continue };
                        // The file itself, as written, must already agree with the reference stream.
                        match front(&text, &[]) {
                            Ok(fr) => {
                                if !same_stream(&fr.toks, &toks) {
                                    ctx.settle(Err(fail(&text, format!("{}: token stream differs from the reference lexer's", f.display()))));
                                    continue;
                                }
                            }
                            Err(e) => {
                                ctx.settle(Err(e));
                                continue;
                            }
                        }
                        for k in 0..40u16 {
                            let choices: Vec<u16> = (0..4000u32).map(|i| (crate::util::mix(u64::from(i) * 977 + u64::from(k) * 131 + ctx.seed) >> 13) as u16).collect();
                            ctx.evaluated(1);
                            let r = relayout(ctx, &mut Ch::new(&choices), &toks, &[], 1);
                            ctx.settle(r);
                        }
                    }
                }),
                replay: None,
            },
            Part {
                name: "relayout",
                rounds,
                run: Box::new(|ctx, r| ctx.prop("relayout", r, 500, 1200, relayout_case)),
                replay: Some(Box::new(|ctx, inp| match inp {
                    ReplayInput::Choices(c) => relayout_case(ctx, &mut Ch::new(c)),
                    _ => Err(Failure::new("this part replays from choices", "")),
                })),
            },
            Part {
                name: "inserted-break",
                rounds,
                run: Box::new(|ctx, r| ctx.prop("inserted-break", r, 500, 600, inserted_break_case)),
                replay: Some(Box::new(|ctx, inp| match inp {
                    ReplayInput::Choices(c) => inserted_break_case(ctx, &mut Ch::new(c)),
                    _ => Err(Failure::new("this part replays from choices", "")),
                })),
            },
            Part {
                name: "enum-layout",
                rounds: 1,
                run: Box::new(move |ctx, _| {
                    for len in 0..=l {
                        let n = c09::for_each_string(&ALPHA_LAYOUT, len, ctx.shard, ctx.nshards, |s| match c09::check_text(s) {
                            Ok(info) => {
                                if info.tokens >= 2 && s.contains('\n') {
                                    ctx.nontrivial_enumerated(|| format!("{s:?}"));
                                }
                            }
                            Err(f) => ctx.settle(Err(f)),
                        });
                        ctx.evaluated(n);
                    }
                    ctx.exhaustive("enum-layout");
                    ctx.note(&format!("enum-layout: all strings of length <= {l} over {ALPHA_LAYOUT:?}"));
                }),
                replay: None,
            },
        ],
    }
}
