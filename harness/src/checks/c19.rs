//! C19 — Meaning-preserving rewrites of a program change neither acceptance nor result.

use crate::cli;
use crate::dterm::D;
use crate::gens::mutate::map_nth;
use crate::gens::prog::{self, ProgCfg};
use crate::pipe::{self, Eval};
use crate::runner::{CheckDef, Ctx, Failure, Outcome, Part, ReplayInput, Tier, catch};
use crate::sast::{self, Def, Op, S};
use crate::typed;
use crate::unifier::unify;
use crate::util::Ch;
use std::collections::BTreeSet;

pub const SIG_UNSOLVED: &str = "definition-type-with-unsolved-holes";

const FRESH: [&str; 12] = ["rn0", "ünï", "iffy", "int3", "type_x", "_u", "名前", "λy", "elsewhere", "w٣", "boolx", "z9"];

fn all_names(s: &S, out: &mut BTreeSet<String>) {
    match s {
        S::Var(n) => {
            out.insert(n.clone());
        }
        S::Lam { name, ann, body, .. } => {
            out.insert(name.clone());
            if let Some(a) = ann {
                all_names(a, out);
            }
            all_names(body, out);
        }
        S::Pi { name, dom, cod, .. } => {
            if let Some(n) = name {
                out.insert(n.clone());
            }
            all_names(dom, out);
            all_names(cod, out);
        }
        S::App(a, b) | S::Bin(_, a, b) => {
            all_names(a, out);
            all_names(b, out);
        }
        S::Neg(a) | S::Paren(a) => all_names(a, out),
        S::If(a, b, c) => {
            all_names(a, out);
            all_names(b, out);
            all_names(c, out);
        }
        S::Let { defs, body } => {
            for d in defs {
                out.insert(d.name.clone());
                if let Some(a) = &d.ann {
                    all_names(a, out);
                }
                all_names(&d.def, out);
            }
            all_names(body, out);
        }
        _ => {}
    }
}

fn rename(s: &S, map: &[(String, String)]) -> S {
    let look = |n: &String| map.iter().find(|(a, _)| a == n).map_or_else(|| n.clone(), |(_, b)| b.clone());
    let r = |x: &S| Box::new(rename(x, map));
    match s {
        S::Var(n) => S::Var(look(n)),
        S::Lam { name, implicit, ann, body } => S::Lam { name: look(name), implicit: *implicit, ann: ann.as_ref().map(|a| r(a)), body: r(body) },
        S::Pi { name, implicit, dom, cod } => S::Pi { name: name.as_ref().map(look), implicit: *implicit, dom: r(dom), cod: r(cod) },
        S::App(a, b) => S::App(r(a), r(b)),
        S::Bin(op, a, b) => S::Bin(*op, r(a), r(b)),
        S::Neg(a) => S::Neg(r(a)),
        S::Paren(a) => S::Paren(r(a)),
        S::If(a, b, c) => S::If(r(a), r(b), r(c)),
        S::Let { defs, body } => S::Let {
            defs: defs.iter().map(|d| Def { name: look(&d.name), ann: d.ann.as_ref().map(|a| rename(a, map)), def: rename(&d.def, map) }).collect(),
            body: r(body),
        },
        other => other.clone(),
    }
}

fn fresh_name(used: &mut BTreeSet<String>, ch: &mut Ch) -> String {
    let start = ch.pick(FRESH.len());
    for k in 0..FRESH.len() {
        let n = FRESH[(start + k) % FRESH.len()];
        if used.insert(n.to_owned()) {
            return n.to_owned();
        }
    }
    let mut i = 0;
    loop {
        let n = format!("fr{i}");
        if used.insert(n.clone()) {
            return n;
        }
        i += 1;
    }
}

/// Static type of a node when it is evident from its form (used by r4/r5 annotations).
fn evident_type(s: &S) -> Option<S> {
    match s.strip() {
        S::Lit(_) | S::Neg(_) => Some(S::Int),
        S::Bin(op, ..) => Some(if op.is_arith() { S::Int } else { S::Bool }),
        S::True | S::False => Some(S::Bool),
        S::Int | S::Bool | S::Type => Some(S::Type),
        _ => None,
    }
}

/// Does the term contain an omitted annotation or a `_`?
fn has_omitted(s: &S) -> bool {
    match s {
        S::Var(n) => n == "_",
        S::Lam { ann, body, .. } => ann.is_none() || ann.as_ref().is_some_and(|a| has_omitted(a)) || has_omitted(body),
        S::Pi { dom, cod, .. } => has_omitted(dom) || has_omitted(cod),
        S::App(a, b) | S::Bin(_, a, b) => has_omitted(a) || has_omitted(b),
        S::Neg(a) | S::Paren(a) => has_omitted(a),
        S::If(a, b, c) => has_omitted(a) || has_omitted(b) || has_omitted(c),
        S::Let { defs, body } => defs.iter().any(|d| d.ann.is_none() || d.ann.as_ref().is_some_and(has_omitted) || has_omitted(&d.def)) || has_omitted(body),
        _ => false,
    }
}

/// The shape of the recorded finding: an un-annotated definition whose right-hand side still has
/// omitted annotations (its type contains holes that are unsolved when the definition is checked).
fn unannotated_defs_with_omissions(s: &S) -> usize {
    let mut found = 0;
    walk_lets(s, &mut |defs| {
        found += defs.iter().filter(|d| d.ann.is_none() && has_omitted(&d.def)).count();
    });
    found
}

fn swappable_pairs(s: &S) -> usize {
    let mut n = 0;
    walk_lets(s, &mut |defs| {
        for i in 0..defs.len().saturating_sub(1) {
            if independent_fns(&defs[i], &defs[i + 1]) {
                n += 1;
            }
        }
    });
    n
}

fn is_fn(s: &S) -> bool {
    matches!(s.strip(), S::Lam { .. })
}

fn mentions_name(s: &S, name: &str) -> bool {
    let mut names = BTreeSet::new();
    all_names(s, &mut names);
    names.contains(name)
}

/// Two adjacent function definitions whose order cannot matter: both are syntactic functions
/// (values, so evaluation order is not involved), and either neither mentions the other, or both
/// carry complete annotations (so that type inference does not depend on the order either; for
/// un-annotated functions that call each other it legitimately does).
fn independent_fns(a: &Def, b: &Def) -> bool {
    let m = |d: &Def, n: &str| mentions_name(&d.def, n) || d.ann.as_ref().is_some_and(|x| mentions_name(x, n));
    let annotated = |d: &Def| d.ann.as_ref().is_some_and(|x| !has_omitted(x));
    is_fn(&a.def) && is_fn(&b.def) && ((!m(a, &b.name) && !m(b, &a.name)) || (annotated(a) && annotated(b)))
}

fn walk_lets(s: &S, f: &mut impl FnMut(&Vec<Def>)) {
    match s {
        S::Let { defs, body } => {
            f(defs);
            for d in defs {
                if let Some(a) = &d.ann {
                    walk_lets(a, f);
                }
                walk_lets(&d.def, f);
            }
            walk_lets(body, f);
        }
        S::Lam { ann, body, .. } => {
            if let Some(a) = ann {
                walk_lets(a, f);
            }
            walk_lets(body, f);
        }
        S::Pi { dom, cod, .. } => {
            walk_lets(dom, f);
            walk_lets(cod, f);
        }
        S::App(a, b) | S::Bin(_, a, b) => {
            walk_lets(a, f);
            walk_lets(b, f);
        }
        S::Neg(a) | S::Paren(a) => walk_lets(a, f),
        S::If(a, b, c) => {
            walk_lets(a, f);
            walk_lets(b, f);
            walk_lets(c, f);
        }
        _ => {}
    }
}

fn swap_nth_pair(s: &S, k: &mut usize) -> S {
    let r = |x: &S, k: &mut usize| Box::new(swap_nth_pair(x, k));
    match s {
        S::Let { defs, body } => {
            let mut defs2 = defs.clone();
            for i in 0..defs.len().saturating_sub(1) {
                if independent_fns(&defs[i], &defs[i + 1]) {
                    if *k == 0 {
                        defs2.swap(i, i + 1);
                        *k = usize::MAX;
                        return S::Let { defs: defs2, body: body.clone() };
                    }
                    if *k != usize::MAX {
                        *k -= 1;
                    }
                }
            }
            let defs3 = defs.iter().map(|d| Def { name: d.name.clone(), ann: d.ann.as_ref().map(|a| swap_nth_pair(a, k)), def: swap_nth_pair(&d.def, k) }).collect();
            S::Let { defs: defs3, body: r(body, k) }
        }
        S::Lam { name, implicit, ann, body } => {
            let ann = ann.as_ref().map(|a| r(a, k));
            S::Lam { name: name.clone(), implicit: *implicit, ann, body: r(body, k) }
        }
        S::Pi { name, implicit, dom, cod } => {
            let dom = r(dom, k);
            S::Pi { name: name.clone(), implicit: *implicit, dom, cod: r(cod, k) }
        }
        S::App(a, b) => {
            let a = r(a, k);
            S::App(a, r(b, k))
        }
        S::Bin(op, a, b) => {
            let a = r(a, k);
            S::Bin(*op, a, r(b, k))
        }
        S::Neg(a) => S::Neg(r(a, k)),
        S::Paren(a) => S::Paren(r(a, k)),
        S::If(a, b, c) => {
            let a = r(a, k);
            let b = r(b, k);
            S::If(a, b, r(c, k))
        }
        other => other.clone(),
    }
}

/// For every node in `map_nth`'s pre-order: is it (through parentheses) the root of a definition's
/// right-hand side? Rewrites that turn a term into a non-value (r3 wrap, r4, r5, r6) are not
/// applied there: whether a definition is a syntactic value matters to the definition-order check,
/// so such a rewrite is not meaning-preserving by the language's own rules.
fn def_roots(s: &S, is_root: bool, out: &mut Vec<bool>) {
    out.push(is_root);
    match s {
        S::Lam { ann, body, .. } => {
            if let Some(a) = ann {
                def_roots(a, false, out);
            }
            def_roots(body, false, out);
        }
        S::Pi { dom, cod, .. } => {
            def_roots(dom, false, out);
            def_roots(cod, false, out);
        }
        S::App(a, b) | S::Bin(_, a, b) => {
            def_roots(a, false, out);
            def_roots(b, false, out);
        }
        S::Neg(a) => def_roots(a, false, out),
        S::Paren(a) => def_roots(a, is_root, out),
        S::If(a, b, c) => {
            def_roots(a, false, out);
            def_roots(b, false, out);
            def_roots(c, false, out);
        }
        S::Let { defs, body } => {
            for d in defs {
                if let Some(a) = &d.ann {
                    def_roots(a, false, out);
                }
                def_roots(&d.def, true, out);
            }
            def_roots(body, false, out);
        }
        _ => {}
    }
}

thread_local! {
    /// Set while programs around the boundary of the definition-order rule are rewritten: sites
    /// are then mostly the roots of definitions.
    static PREFER_DEF_ROOTS: std::cell::Cell<bool> = const { std::cell::Cell::new(false) };
}

/// A node index that is not a definition root (None if there is none).
fn pick_site(s: &S, ch: &mut Ch) -> Option<usize> {
    let mut roots = vec![];
    def_roots(s, false, &mut roots);
    if PREFER_DEF_ROOTS.with(std::cell::Cell::get) && ch.chance(3, 4) {
        let only: Vec<usize> = roots.iter().enumerate().filter(|(_, r)| **r).map(|(i, _)| i).collect();
        if !only.is_empty() {
            return Some(only[ch.pick(only.len())]);
        }
    }
    // Now and then the root of a definition's right-hand side is allowed as well: whether the
    // rewritten group still satisfies the definition-order rule is decided afterwards (R-order).
    let roots_too = ch.chance(1, 3);
    let allowed: Vec<usize> = roots.iter().enumerate().filter(|(_, r)| roots_too || !**r).map(|(i, _)| i).collect();
    if allowed.is_empty() { None } else { Some(allowed[ch.pick(allowed.len())]) }
}

fn is_base_type(s: &S) -> bool {
    match s.strip() {
        S::Int | S::Bool | S::Type => true,
        S::Pi { name: None, dom, cod, .. } => is_base_type(dom) && is_base_type(cod),
        _ => false,
    }
}

/// r6 at every annotation that is a base type or an arrow of base types; `n` counts them.
fn wrap_annotations(s: &S, ch: &mut Ch, n: &mut usize) -> S {
    let mut wrap = |a: &S, ch: &mut Ch, n: &mut usize| -> S {
        if !is_base_type(a) || ch.chance(1, 4) {
            return wrap_annotations(a, ch, n);
        }
        *n += 1;
        let pool = [S::Int, S::Bool, S::Type, sast::arrow(S::Int, S::Int), sast::arrow(S::Bool, S::Int)];
        let mut dead = pool[ch.pick(pool.len())].clone();
        if dead == *a.strip() {
            dead = sast::arrow(S::Type, S::Bool);
        }
        if ch.chance(1, 2) { sast::ite(S::True, a.clone(), dead) } else { sast::ite(S::False, dead, a.clone()) }
    };
    match s {
        S::Lam { name, implicit, ann, body } => {
            let ann = ann.as_ref().map(|a| Box::new(wrap(a, ch, n)));
            S::Lam { name: name.clone(), implicit: *implicit, ann, body: Box::new(wrap_annotations(body, ch, n)) }
        }
        S::Pi { name, implicit, dom, cod } => {
            let dom = Box::new(wrap_annotations(dom, ch, n));
            S::Pi { name: name.clone(), implicit: *implicit, dom, cod: Box::new(wrap_annotations(cod, ch, n)) }
        }
        S::App(a, b) => {
            let a = Box::new(wrap_annotations(a, ch, n));
            S::App(a, Box::new(wrap_annotations(b, ch, n)))
        }
        S::Bin(op, a, b) => {
            let a = Box::new(wrap_annotations(a, ch, n));
            S::Bin(*op, a, Box::new(wrap_annotations(b, ch, n)))
        }
        S::Neg(a) => S::Neg(Box::new(wrap_annotations(a, ch, n))),
        S::Paren(a) => S::Paren(Box::new(wrap_annotations(a, ch, n))),
        S::If(a, b, c) => {
            let a = Box::new(wrap_annotations(a, ch, n));
            let b = Box::new(wrap_annotations(b, ch, n));
            S::If(a, b, Box::new(wrap_annotations(c, ch, n)))
        }
        S::Let { defs, body } => {
            let defs = defs
                .iter()
                .map(|d| {
                    let ann = d.ann.as_ref().map(|a| wrap(a, ch, n));
                    Def { name: d.name.clone(), ann, def: wrap_annotations(&d.def, ch, n) }
                })
                .collect();
            S::Let { defs, body: Box::new(wrap_annotations(body, ch, n)) }
        }
        other => other.clone(),
    }
}

/// Apply one rewrite; returns (rewritten, label, renaming used, site below the root?).
fn rewrite(s: &S, root_type: &S, ch: &mut Ch) -> Option<(S, &'static str, bool)> {
    let mut used = BTreeSet::new();
    all_names(s, &mut used);
    let n = s.size();
    // r7 gets a double share: it applies to few programs.
    let kind = ch.pick(10);
    match kind {
        0 => {
            // r1: consistent renaming of a subset of the binders.
            let mut binders = BTreeSet::new();
            let mut collect = |x: &S| {
                let _ = x;
            };
            let _ = &mut collect;
            fn binders_of(s: &S, out: &mut BTreeSet<String>) {
                match s {
                    S::Lam { name, ann, body, .. } => {
                        if name != "_" {
                            out.insert(name.clone());
                        }
                        if let Some(a) = ann {
                            binders_of(a, out);
                        }
                        binders_of(body, out);
                    }
                    S::Pi { name, dom, cod, .. } => {
                        if let Some(n) = name {
                            if n != "_" {
                                out.insert(n.clone());
                            }
                        }
                        binders_of(dom, out);
                        binders_of(cod, out);
                    }
                    S::App(a, b) | S::Bin(_, a, b) => {
                        binders_of(a, out);
                        binders_of(b, out);
                    }
                    S::Neg(a) | S::Paren(a) => binders_of(a, out),
                    S::If(a, b, c) => {
                        binders_of(a, out);
                        binders_of(b, out);
                        binders_of(c, out);
                    }
                    S::Let { defs, body } => {
                        for d in defs {
                            if d.name != "_" {
                                out.insert(d.name.clone());
                            }
                            if let Some(a) = &d.ann {
                                binders_of(a, out);
                            }
                            binders_of(&d.def, out);
                        }
                        binders_of(body, out);
                    }
                    _ => {}
                }
            }
            binders_of(s, &mut binders);
            if binders.is_empty() {
                return None;
            }
            let mut map = vec![];
            for b in &binders {
                if ch.chance(1, 2) {
                    let f = fresh_name(&mut used, ch);
                    map.push((b.clone(), f));
                }
            }
            if map.is_empty() {
                let b = binders.iter().next().unwrap().clone();
                let f = fresh_name(&mut used, ch);
                map.push((b, f));
            }
            Some((rename(s, &map), "r1 consistent renaming", true))
        }
        1 => {
            // A third of the time, when the program has a group of two or more definitions: the
            // parentheses go around the *tail* of the group (`x = a; (y = b; body)`), which is not a
            // node of `S` (a group is one node). The body of a definition is a term, so these
            // parentheses are redundant like any others; definitions before them may well refer to
            // definitions inside them and vice versa.
            if ch.chance(1, 3) {
                if let Some(t) = crate::gens::mutate::paren_group_tail(s, ch) {
                    return Some((t, "r2 redundant parentheses around the tail of a group", true));
                }
            }
            let mut k = ch.pick(n);
            let below = k > 0;
            Some((map_nth(s, &mut k, &mut |x| S::Paren(Box::new(x.clone()))), "r2 redundant parentheses", below))
        }
        2 => {
            // r3: an unused definition wrapped around a subexpression (value and non-value forms).
            let mut k = pick_site(s, ch)?;
            let below = k > 0;
            let u = fresh_name(&mut used, ch);
            let def = match ch.pick(4) {
                0 => sast::lit(0),
                1 => sast::bin(Op::Add, sast::lit(1), sast::lit(1)),
                2 => sast::lam(&fresh_name(&mut used, ch), Some(S::Int), sast::lit(3)),
                _ => S::Int,
            };
            let annotated = ch.chance(1, 2);
            Some((
                map_nth(s, &mut k, &mut |x| {
                    let ann = if annotated { evident_type(&def).or(Some(sast::arrow(S::Int, S::Int))) } else { None };
                    let ann = if matches!(def.strip(), S::Lam { .. }) && annotated { Some(sast::arrow(S::Int, S::Int)) } else { ann };
                    S::Paren(Box::new(S::Let { defs: vec![Def { name: u.clone(), ann, def: def.clone() }], body: Box::new(x.clone()) }))
                }),
                "r3 unused definition",
                below,
            ))
        }
        3 => {
            // r4: naming a subexpression.
            let mut k = pick_site(s, ch)?;
            let below = k > 0;
            let v = fresh_name(&mut used, ch);
            let root = k == 0;
            let annotated = ch.chance(1, 2);
            Some((
                map_nth(s, &mut k, &mut |x| {
                    let ann = if annotated { if root { Some(root_type.clone()) } else { evident_type(x) } } else { None };
                    S::Paren(Box::new(S::Let { defs: vec![Def { name: v.clone(), ann, def: x.clone() }], body: Box::new(sast::var(&v)) }))
                }),
                "r4 subexpression named by a definition",
                below,
            ))
        }
        4 => {
            // r5: immediately applied annotated identity, where the type is evident (or at the root).
            let sites: Vec<usize> = {
                let mut v = vec![0usize];
                let mut idx = 0usize;
                fn visit(s: &S, idx: &mut usize, out: &mut Vec<usize>) {
                    if *idx > 0 && evident_type(s).is_some() && !matches!(s, S::Paren(_)) {
                        out.push(*idx);
                    }
                    *idx += 1;
                    match s {
                        S::Lam { ann, body, .. } => {
                            if let Some(a) = ann {
                                visit(a, idx, out);
                            }
                            visit(body, idx, out);
                        }
                        S::Pi { dom, cod, .. } => {
                            visit(dom, idx, out);
                            visit(cod, idx, out);
                        }
                        S::App(a, b) | S::Bin(_, a, b) => {
                            visit(a, idx, out);
                            visit(b, idx, out);
                        }
                        S::Neg(a) | S::Paren(a) => visit(a, idx, out),
                        S::If(a, b, c) => {
                            visit(a, idx, out);
                            visit(b, idx, out);
                            visit(c, idx, out);
                        }
                        S::Let { defs, body } => {
                            for d in defs {
                                if let Some(a) = &d.ann {
                                    visit(a, idx, out);
                                }
                                visit(&d.def, idx, out);
                            }
                            visit(body, idx, out);
                        }
                        _ => {}
                    }
                }
                visit(s, &mut idx, &mut v);
                v
            };
            let mut roots = vec![];
            def_roots(s, false, &mut roots);
            let sites: Vec<usize> = sites.into_iter().filter(|i| !roots[*i]).collect();
            if sites.is_empty() {
                return None;
            }
            let site = sites[ch.pick(sites.len())];
            let mut k = site;
            let v = fresh_name(&mut used, ch);
            Some((
                map_nth(s, &mut k, &mut |x| {
                    let ty = if site == 0 { root_type.clone() } else { evident_type(x).unwrap_or(S::Int) };
                    sast::app(sast::lam(&v, Some(ty), sast::var(&v)), x.clone())
                }),
                "r5 immediately applied annotated identity",
                site > 0,
            ))
        }
        5 => {
            // A third of the time r6 is applied to *every* annotation that is a closed base type or
            // an arrow of base types, each with its own dead branch (`if true then T else D`,
            // `if false then D else T`): types that the checker compares with each other are then
            // both conditionals, with the same condition and different dead branches.
            if ch.chance(1, 3) {
                let mut n = 0;
                let t = wrap_annotations(s, ch, &mut n);
                if n >= 2 {
                    return Some((t, "r6 every base-type annotation wrapped in a conditional with its own dead branch", true));
                }
            }
            let mut k = pick_site(s, ch)?;
            let below = k > 0;
            Some((map_nth(s, &mut k, &mut |x| sast::ite(S::True, x.clone(), x.clone())), "r6 if true then e else e", below))
        }
        6 | 8 | 9 => {
            let pairs = swappable_pairs(s);
            if pairs == 0 {
                return None;
            }
            let mut k = ch.pick(pairs);
            Some((swap_nth_pair(s, &mut k), "r7 adjacent function definitions swapped", true))
        }
        _ => {
            // r3 (group form): an unused definition added to an existing group.
            let mut groups = 0;
            walk_lets(s, &mut |_| groups += 1);
            if groups == 0 {
                return None;
            }
            let target = ch.pick(groups);
            let u = fresh_name(&mut used, ch);
            let non_value = ch.chance(1, 2);
            let mut seen = 0usize;
            fn add(s: &S, target: usize, seen: &mut usize, u: &str, non_value: bool, pos_choice: usize) -> S {
                let r = |x: &S, seen: &mut usize| Box::new(add(x, target, seen, u, non_value, pos_choice));
                match s {
                    S::Let { defs, body } => {
                        let me = *seen;
                        *seen += 1;
                        let mut defs2: Vec<Def> = defs.iter().map(|d| Def { name: d.name.clone(), ann: d.ann.as_ref().map(|a| add(a, target, seen, u, non_value, pos_choice)), def: add(&d.def, target, seen, u, non_value, pos_choice) }).collect();
                        let body2 = r(body, seen);
                        if me == target {
                            let def = if non_value { sast::bin(Op::Mul, sast::lit(2), sast::lit(3)) } else { sast::lit(5) };
                            let at = pos_choice % (defs2.len() + 1);
                            defs2.insert(at, Def { name: u.to_owned(), ann: Some(S::Int), def });
                        }
                        S::Let { defs: defs2, body: body2 }
                    }
                    S::Lam { name, implicit, ann, body } => {
                        let ann = ann.as_ref().map(|a| r(a, seen));
                        S::Lam { name: name.clone(), implicit: *implicit, ann, body: r(body, seen) }
                    }
                    S::Pi { name, implicit, dom, cod } => {
                        let dom = r(dom, seen);
                        S::Pi { name: name.clone(), implicit: *implicit, dom, cod: r(cod, seen) }
                    }
                    S::App(a, b) => {
                        let a = r(a, seen);
                        S::App(a, r(b, seen))
                    }
                    S::Bin(op, a, b) => {
                        let a = r(a, seen);
                        S::Bin(*op, a, r(b, seen))
                    }
                    S::Neg(a) => S::Neg(r(a, seen)),
                    S::Paren(a) => S::Paren(r(a, seen)),
                    S::If(a, b, c) => {
                        let a = r(a, seen);
                        let b = r(b, seen);
                        S::If(a, b, r(c, seen))
                    }
                    other => other.clone(),
                }
            }
            let pos_choice = ch.pick(6);
            Some((add(s, target, &mut seen, &u, non_value, pos_choice), "r3 unused definition added to a group", true))
        }
    }
}

#[derive(Debug, PartialEq, Eq, Clone)]
enum Obs {
    Value(typed::RefValue, String),
    Running,
    Stuck(String),
}

fn observe(elab: &crate::term::Term, budget: u64) -> Result<Obs, String> {
    Ok(match pipe::run_steps(elab, budget)? {
        Eval::Value(v, _) => Obs::Value(typed::gram_value(&v).ok_or("value of unknown kind")?, D::from_gram(&v).show()),
        Eval::Running(_) => Obs::Running,
        // The way evaluation stops, without the names involved (they differ under renaming).
        Eval::Stuck(t, _) => Obs::Stuck(match pipe::classify_stuck(&t) {
            pipe::StuckKind::GroupVariable { definition_is_value, .. } => format!("at a variable of a group under evaluation (its definition is a value: {definition_is_value})"),
            pipe::StuckKind::FreeVariable(_) => "at a free variable".to_owned(),
            pipe::StuckKind::Other(_) => "other".to_owned(),
            k => format!("{k:?}"),
        }),
    })
}

/// A program around the boundary of the definition-order rule (see C05's order-rule part) that
/// satisfies the rule, as a base for rewrites at the roots of its definitions.
fn order_base(ch: &mut Ch) -> Option<prog::Program> {
    (0..8).find_map(|_| order_base_once(ch))
}

fn order_base_once(ch: &mut Ch) -> Option<prog::Program> {
    let mut counter = 0;
    let depth = ch.pick(2);
    let text = crate::checks::c05::order_group(ch, depth, &[], &mut counter);
    let toks = crate::refs::lex::expected_stream(&text)?;
    if toks.len() >= 240 {
        return None;
    }
    let s = crate::checks::c07::with_grammar(|g| crate::refs::chart::parse_tokens(g, &toks).1)?.flatten().unparen();
    if !crate::refs::order::order_ok(&s) {
        return None;
    }
    let text = sast::print_plain(&s);
    Some(prog::Program { s, text, ty: S::Int, features: BTreeSet::new() })
}

fn rewrite_case(ctx: &Ctx, ch: &mut Ch) -> Outcome {
    let order_family = ch.chance(1, 3);
    PREFER_DEF_ROOTS.with(|c| c.set(order_family));
    let r = rewrite_case_inner(ctx, ch, order_family);
    PREFER_DEF_ROOTS.with(|c| c.set(false));
    r
}

fn rewrite_case_inner(ctx: &Ctx, ch: &mut Ch, order_family: bool) -> Outcome {
    let cfg = ProgCfg { forward_aliases: false, ..ProgCfg::default() };
    let kind = [0, 0, 1, 2][ch.pick(4)];
    let fuel = 2 + ch.pick(4);
    let generated = if order_family { order_base(ch) } else { prog::gen_program(ch, cfg, kind, fuel) };
    let Some(p) = generated else {
        ctx.class(if order_family { "order family: the generated group does not satisfy the rule (skipped)" } else { "generator: gave up" });
        return Ok(());
    };
    if order_family {
        ctx.class("order family: base program at the boundary of the definition-order rule");
    }
    if p.text.len() > 3000 {
        return Ok(());
    }
    let base = if ch.chance(1, 4) {
        let mut erased = 0;
        prog::erase(&p.s, ch, &mut erased).flatten()
    } else {
        p.s.clone()
    };
    let mut rewritten = base.clone();
    let mut labels = vec![];
    let mut below_root = false;
    let mut exact_values = true;
    for _ in 0..1 + ch.pick(4) {
        if let Some((r, label, below)) = rewrite(&rewritten, &p.ty, ch) {
            rewritten = r;
            labels.push(label);
            below_root |= below;
            if !label.starts_with("r2") {
                exact_values = false;
            }
            // The parenthesised tail of a group is not a subexpression like any other (definitions
            // before it refer to names bound inside it), so no further rewrite is applied to it.
            if label.ends_with("tail of a group") {
                break;
            }
        }
    }
    if labels.is_empty() {
        ctx.class("no applicable rewrite");
        return Ok(());
    }
    // The recorded finding: a rewrite created an un-annotated definition around a term with omitted
    // annotations. Mostly excluded by construction (counted); a share is kept to re-observe it.
    let new_unannotated_def = unannotated_defs_with_omissions(&rewritten) > unannotated_defs_with_omissions(&base);
    if new_unannotated_def && !ch.chance(1, 8) {
        ctx.class("excluded by construction: rewrite puts a term with omitted annotations under an un-annotated definition (recorded finding)");
        return Ok(());
    }
    // A rewrite at the root of a definition can turn a syntactic value into a non-value; the
    // rewritten program is in the domain only if it still satisfies the definition-order rule.
    if !crate::refs::order::order_ok(&rewritten.flatten_merged()) {
        ctx.class("excluded: the rewritten program does not satisfy the definition-order rule (a definition stopped being a syntactic value)");
        return Ok(());
    }
    let (ta, tb) = (sast::print_plain(&base), sast::print_plain(&rewritten.flatten()));
    let input = format!("{ta}   ==>   {tb}   [{}]", labels.join(", "));
    ctx.announce(false, None, &input);
    // The functions of an order-family group call each other freely and often do not terminate:
    // a small budget is enough to tell (acceptance is what these cases are about).
    let budget = if order_family { 1500 } else { crate::checks::c02::step_budget(ctx.tier) };
    let r = pipe::with_two_checked(&ta, &tb, |a, b| -> Result<&'static str, Failure> {
        let Some((ea, tya)) = a else { return Ok("original not accepted (outside the domain)") };
        // Programs accepted with holes that are never solved are the subject of a recorded finding.
        let unsolved = D::from_gram(ea).show().contains('_') || D::from_gram(tya).show().contains('_') || new_unannotated_def;
        let tag = |f: Failure| if unsolved { f.with_sig(SIG_UNSOLVED) } else { f };
        let Some((eb, tyb)) = b else {
            // The recorded finding seen from its diagnostic: every error says that a type which
            // still contains unsolved holes was expected to be a bare unsolved hole (the
            // annotation hole of an un-annotated definition).
            let by_message = pipe::with_front(&tb, |f| match f {
                pipe::Front::TypeErr { errors, .. } => !errors.is_empty() && errors.iter().all(|e| e.ends_with(", but it was expected to have type `_`:") && e.trim_end_matches(", but it was expected to have type `_`:").split(|c: char| !(c.is_alphanumeric() || c == '_')).any(|w| w == "_")),
                _ => false,
            })
            .unwrap_or(false);
            if by_message && unannotated_defs_with_omissions(&rewritten) > 0 {
                return Err(Failure::new(format!("the original is accepted (type `{tya}`) but the rewritten program is rejected"), input.clone()).with_sig(SIG_UNSOLVED));
            }
            return Err(tag(Failure::new(format!("the original is accepted (type `{tya}`) but the rewritten program is rejected"), input.clone())));
        };
        // Types: judged by gram's own conversion (no reference semantics in this check).
        let same = catch(|| unify(tya, tyb, &mut vec![])).map_err(|p| Failure::new(format!("unify panicked: {p}"), input.clone()).with_sig("panic"))?;
        if !same {
            return Err(tag(Failure::new(format!("reported types differ: `{tya}` vs `{tyb}`"), input.clone())));
        }
        let oa = observe(ea, budget).map_err(|p| Failure::new(p, input.clone()).with_sig("panic"))?;
        let ob = observe(eb, budget).map_err(|p| Failure::new(p, input.clone()).with_sig("panic"))?;
        match (&oa, &ob) {
            (Obs::Running, _) | (_, Obs::Running) => Ok("inconclusive: still running at the step budget"),
            (Obs::Value(ka, sa), Obs::Value(kb, sb)) => {
                if ka != kb {
                    return Err(Failure::new(format!("results differ: {ka:?} vs {kb:?}"), input.clone()));
                }
                if exact_values && sa != sb {
                    return Err(Failure::new(format!("values differ structurally after adding parentheses only: {sa} vs {sb}"), input.clone()));
                }
                Ok("same acceptance, type and value")
            }
            (Obs::Stuck(x), Obs::Stuck(y)) => {
                if x == y { Ok("same acceptance and type; both stop the same way") } else { Err(Failure::new(format!("outcomes differ: stuck {x} vs stuck {y}"), input.clone())) }
            }
            (x, y) => Err(Failure::new(format!("outcomes differ: {x:?} vs {y:?}"), input.clone())),
        }
    })
    .map_err(|p| Failure::new(p, input.clone()).with_sig("panic"))?;
    let class = r?;
    if class.starts_with("inconclusive") {
        ctx.inconclusive(class);
    } else {
        ctx.class(class);
        if !class.starts_with("original not accepted") {
            for l in &labels {
                ctx.class(&format!("rewrite: {l}"));
            }
            if below_root {
                ctx.nontrivial(&input);
            }
        }
    }
    Ok(())
}

fn cli_case(ctx: &Ctx, ch: &mut Ch, scratch: &cli::Scratch) -> Outcome {
    let cfg = ProgCfg { forward_aliases: false, ..ProgCfg::default() };
    let kind = ch.pick(2);
    let fuel = 2 + ch.pick(3);
    let Some(p) = prog::gen_program(ch, cfg, kind, fuel) else { return Ok(()) };
    let Some((r, label, _)) = rewrite(&p.s, &p.ty, ch) else { return Ok(()) };
    // As in the `rewrites` part: a rewrite at the root of a definition can turn a syntactic value
    // into a non-value; the rewritten program is in the domain only if it still satisfies the
    // definition-order rule (R-order).
    if !crate::refs::order::order_ok(&r.flatten_merged()) {
        ctx.class("cli: excluded, the rewritten program does not satisfy the definition-order rule (a definition stopped being a syntactic value)");
        return Ok(());
    }
    let (ta, tb) = (p.text.clone(), sast::print_plain(&r.flatten()));
    scratch.write("a.g", ta.as_bytes());
    scratch.write("b.g", tb.as_bytes());
    let input = format!("{ta}   ==>   {tb}   [{label}]");
    for sub in ["check", "run"] {
        let ra = cli::run(sub, &scratch.dir, "a.g").map_err(|e| Failure::new(e, "cli"))?;
        let rb = cli::run(sub, &scratch.dir, "b.g").map_err(|e| Failure::new(e, "cli"))?;
        if ra.status == cli::TIMEOUT_STATUS || rb.status == cli::TIMEOUT_STATUS {
            ctx.inconclusive("cli: a run was still going after 10 s");
            return Ok(());
        }
        if ra.status != rb.status {
            return Err(Failure::new(format!("`gram {sub}` exits with {} for the original and {} for the rewritten program", ra.status, rb.status), input));
        }
        if sub == "run" && ra.status == 0 && ra.stdout != rb.stdout {
            return Err(Failure::new(format!("`gram run` prints {:?} for the original and {:?} for the rewritten program", String::from_utf8_lossy(&ra.stdout), String::from_utf8_lossy(&rb.stdout)), input));
        }
    }
    ctx.class(&format!("cli: same exit status and value; {label}"));
    ctx.nontrivial(&input);
    Ok(())
}

pub fn def(tier: Tier) -> CheckDef {
    let rounds = tier.pick(6, 60);
    CheckDef {
        id: "C19",
        level: "exploration",
        rule: "accepted type-directed generated programs (a quarter annotation-erased), each subjected to 1-4 rewrites at generated sites: r1 consistent renaming of a subset of binders to fresh names from ASCII / keyword-like / non-ASCII pools; r2 redundant parentheses around any node; r3 an unused definition (value and non-value, annotated or not) wrapped around any node or inserted at any position of an existing group; r4 a node named by a definition (with and without annotation); r5 a node wrapped in an immediately applied annotated identity (at the root or where the type is evident); r6 `if true then e else e`, or every base-type annotation of the program wrapped in a conditional with its own dead branch (`if true then T else D` / `if false then D else T`); r7 two adjacent function definitions swapped (functions that mention each other only when both are fully annotated); a third of the base programs are groups at the boundary of the definition-order rule (functions in value and non-value form mentioning earlier, later and nested definitions) rewritten mostly at the roots of their definitions, the rewritten program being in the domain when it still satisfies the rule as documented (R-order); oracle (no reference semantics) = the rewritten program is accepted, gram's own conversion judges the two reported types equal, and the `step` loop ends the same way (same literal / same kind; structurally identical value for parentheses-only rewrites); `gram check` / `gram run` exit status and printed value compared on a sample; non-trivial = at least one rewrite site below the root; per-rewrite counts are in the evidence; distinct by program pair",
        assumptions: vec!["int / bool results of `gram run` print identically for both programs (no names involved)"],
        idle_limit_s: 90,
        needs_cli: true,
        fuzz: None,
        parts: vec![
            Part {
                name: "rewrites",
                rounds,
                run: Box::new(|ctx, r| ctx.prop("rewrites", r, 400, 700, rewrite_case)),
                replay: Some(Box::new(|ctx, inp| match inp {
                    ReplayInput::Choices(c) => rewrite_case(ctx, &mut Ch::new(c)),
                    _ => Err(Failure::new("this part replays from choices", "")),
                })),
            },
            Part {
                name: "cli",
                rounds: tier.pick(1, 8),
                run: Box::new(|ctx, r| {
                    let scratch = cli::Scratch::new(&format!("c19-{}", ctx.shard));
                    ctx.prop("cli", r, 40, 500, |ctx, ch| cli_case(ctx, ch, &scratch));
                }),
                replay: Some(Box::new(|ctx, inp| match inp {
                    ReplayInput::Choices(c) => {
                        let scratch = cli::Scratch::new("c19-replay");
                        cli_case(ctx, &mut Ch::new(c), &scratch)
                    }
                    _ => Err(Failure::new("this part replays from choices", "")),
                })),
            },
        ],
    }
}
