//! C08 — Every variable occurrence is bound to the right binder.

use crate::bridge::{Cmp, classify_parse_errors};
use crate::gens::syn::{self, NAME_POOL, SynCfg, SynGen};
use crate::runner::{CheckDef, Ctx, Failure, Outcome, Part, ReplayInput, Tier, catch};
use crate::sast::{self, PLACEHOLDER, S, ScopeErr};
use crate::tok;
use crate::util::Ch;

const CONTEXT_POOL: [&str; 4] = ["c0", "ctx1", "k", "ω"];

pub struct Parsed {
    pub ok: Option<Result<(), String>>, // Some(cmp result) when parse returned Ok
    pub kinds: Option<crate::bridge::ErrKinds>,
    pub max_scope: usize,
    pub occurrences: usize,
    pub sibling_reuse: bool,
    pub printed: String,
}

/// Tokenize-free pipeline: print `s`, hand the tokens to gram's `parse` with `context`.
pub fn parse_and_compare(s: &S, context: &[&str]) -> Result<Parsed, String> {
    let toks = sast::print_tokens(s);
    let (text, ranges) = tok::render_plain(&toks);
    let gt = tok::to_gram(&text, &toks, &ranges);
    catch(|| match crate::parser::parse(None, &text, &gt, context) {
        Ok(term) => {
            let mut cmp = Cmp::new(context);
            let r = cmp.cmp(&term, s);
            Parsed { ok: Some(r), kinds: None, max_scope: cmp.max_scope, occurrences: cmp.var_occurrences, sibling_reuse: cmp.sibling_reuse, printed: term.to_string() }
        }
        Err(errs) => Parsed { ok: None, kinds: Some(classify_parse_errors(&errs)), max_scope: 0, occurrences: 0, sibling_reuse: false, printed: String::new() },
    })
}

fn gen_program<'a>(ch: &mut Ch, context: &mut Vec<&'static str>) -> S {
    let nctx = ch.pick(5);
    for c in CONTEXT_POOL.iter().take(nctx.min(CONTEXT_POOL.len())) {
        context.push(c);
    }
    let fuel = 2 + ch.pick(5);
    let cfg = SynCfg { paren_16: 1, ..SynCfg::default() };
    let mut g = SynGen::new(ch, cfg, context);
    g.term(fuel).flatten()
}

fn valid_case(ctx: &Ctx, ch: &mut Ch) -> Outcome {
    let mut context = vec![];
    let s = gen_program(ch, &mut context);
    let text = sast::print_plain(&s);
    let input = format!("{text}   [context: {context:?}]");
    // The generator's own claim (valid scoping) is checked with R-scope first.
    let mut errs = vec![];
    sast::scope_errors(&s, &mut context.iter().map(|c| (*c).to_owned()).collect(), &mut errs);
    if !errs.is_empty() {
        eprintln!("harness error: G-syn produced an ill-scoped program {text}: {errs:?}");
        std::process::exit(2);
    }
    let p = parse_and_compare(&s, &context).map_err(|p| Failure::new(format!("parse panicked: {p}"), input.clone()).with_sig("panic"))?;
    match (&p.ok, &p.kinds) {
        (Some(Ok(())), _) => {
            ctx.class("well scoped: accepted, every index points at its binder");
            let multi_group = has_multi_group(&s);
            if p.max_scope >= 3 && p.occurrences >= 1 && (multi_group || p.sibling_reuse) {
                ctx.nontrivial(&input);
            }
            Ok(())
        }
        (Some(Err(diff)), _) => Err(Failure::new(format!("{diff}; parser output prints as `{}`", p.printed), input)),
        (None, Some(k)) => {
            if k.syntax == 0 && k.not_in_scope.is_empty() && k.already_exists.is_empty() && k.order > 0 {
                // Rejected by the definition-order check only: C08 has no term to look at.
                ctx.class("well scoped but rejected by the definition-order check (skipped)");
                Ok(())
            } else {
                Err(Failure::new(format!("a well-scoped program was rejected: {k:?}"), input))
            }
        }
        _ => unreachable!(),
    }
}

fn has_multi_group(s: &S) -> bool {
    match s {
        S::Let { defs, body } => defs.len() >= 2 || defs.iter().any(|d| d.ann.as_ref().is_some_and(has_multi_group) || has_multi_group(&d.def)) || has_multi_group(body),
        S::Lam { ann, body, .. } => ann.as_ref().is_some_and(|a| has_multi_group(a)) || has_multi_group(body),
        S::Pi { dom, cod, .. } => has_multi_group(dom) || has_multi_group(cod),
        S::App(a, b) | S::Bin(_, a, b) => has_multi_group(a) || has_multi_group(b),
        S::Neg(a) | S::Paren(a) => has_multi_group(a),
        S::If(a, b, c) => has_multi_group(a) || has_multi_group(b) || has_multi_group(c),
        _ => false,
    }
}

fn perturbed_case(ctx: &Ctx, ch: &mut Ch) -> Outcome {
    let mut context = vec![];
    let s = gen_program(ch, &mut context);
    let scope0: Vec<String> = context.iter().map(|c| (*c).to_owned()).collect();
    if ch.chance(1, 2) {
        // Unbind one occurrence.
        let n = syn::count_occurrences(&s);
        if n == 0 {
            ctx.class("perturbation skipped: no variable occurrence");
            return Ok(());
        }
        let mut k = ch.pick(n);
        // (names that begin with the placeholder's `_` are ordinary names too)
        let fresh = ["zz_unbound", "ünbound", "iffy", "_zz", "__", "_1"][ch.pick(6)];
        let mut t = s.clone();
        assert!(syn::rename_occurrence(&mut t, &mut k, fresh));
        let text = sast::print_plain(&t);
        let input = format!("{text}   [context: {context:?}; occurrence renamed to {fresh}]");
        let p = parse_and_compare(&t, &context).map_err(|p| Failure::new(format!("parse panicked: {p}"), input.clone()).with_sig("panic"))?;
        match p.kinds {
            None => Err(Failure::new(format!("the name {fresh} is not in scope, yet the program was accepted as `{}`", p.printed), input)),
            Some(k) => {
                if k.syntax > 0 {
                    return Err(Failure::new(format!("syntax errors on a grammatical program: {k:?}"), input));
                }
                if k.not_in_scope != vec![fresh.to_owned()] || !k.already_exists.is_empty() {
                    return Err(Failure::new(format!("expected exactly one `not in scope` diagnostic naming {fresh}, got {k:?}"), input));
                }
                ctx.class("unbound occurrence rejected with `not in scope`");
                ctx.nontrivial(&input);
                Ok(())
            }
        }
    } else {
        // Re-bind a name that is in scope at the binder.
        let mut sites = vec![];
        syn::binder_sites(&s, &mut scope0.clone(), &mut sites);
        let candidates: Vec<usize> = sites.iter().enumerate().filter(|(_, (vis, _))| !vis.is_empty()).map(|(i, _)| i).collect();
        if candidates.is_empty() {
            ctx.class("perturbation skipped: no binder with a non-empty scope");
            return Ok(());
        }
        let site = candidates[ch.pick(candidates.len())];
        let visible = &sites[site].0;
        let new = visible[ch.pick(visible.len())].clone();
        let mut t = s.clone();
        let mut k = site;
        assert!(syn::rename_binder(&mut t, &mut k, &new));
        let text = sast::print_plain(&t);
        let input = format!("{text}   [context: {context:?}; binder `{}` renamed to `{new}`]", sites[site].1);
        // R-scope must agree that this is a re-binding.
        let mut errs = vec![];
        sast::scope_errors(&t, &mut scope0.clone(), &mut errs);
        if !errs.contains(&ScopeErr::Rebound(new.clone())) {
            eprintln!("harness error: perturbation did not create a re-binding: {input} {errs:?}");
            std::process::exit(2);
        }
        let p = parse_and_compare(&t, &context).map_err(|p| Failure::new(format!("parse panicked: {p}"), input.clone()).with_sig("panic"))?;
        match p.kinds {
            None => Err(Failure::new(format!("`{new}` is re-bound while in scope, yet the program was accepted as `{}`", p.printed), input)),
            Some(k) => {
                if k.syntax > 0 {
                    return Err(Failure::new(format!("syntax errors on a grammatical program: {k:?}"), input));
                }
                if !k.already_exists.contains(&new) {
                    return Err(Failure::new(format!("expected an `already exists` diagnostic naming {new}, got {k:?}"), input));
                }
                ctx.class("re-binding rejected with `already exists`");
                ctx.nontrivial(&input);
                Ok(())
            }
        }
    }
}

pub fn def(tier: Tier) -> CheckDef {
    let rounds = tier.pick(30, 300);
    CheckDef {
        id: "C08",
        level: "exploration",
        rule: "proptest-generated well-scoped programs (nesting depth up to 7, groups of 1-4 definitions nested in definitions, annotations and bodies, sibling scopes re-using names from a 20-name pool incl. keyword-like and non-ASCII names, `_` as binder and expression, 0-4 context names) and single-point perturbations (one occurrence unbound; one binder renamed to a name in scope: enclosing parameter, earlier or later definition of the same group, context name); oracle = named scope resolver with binder-node identity (the index is looked up in a stack of binder nodes, not recomputed); non-trivial = at least 3 binders in scope at some point and a group of >= 2 definitions or a re-used sibling name, or any perturbation; distinct by program text",
        assumptions: vec![
            "programs rejected only by the definition-order check are skipped (no term to inspect); the generator keeps them rare",
            "a parenthesised group directly in the body position of a group is never generated (its scoping is not settled by the property)",
        ],
        idle_limit_s: 300,
        needs_cli: false,
        fuzz: None,
        parts: vec![
            Part {
                name: "valid",
                rounds,
                run: Box::new(|ctx, r| ctx.prop("valid", r, 1000, 500, valid_case)),
                replay: Some(Box::new(|ctx, inp| match inp {
                    ReplayInput::Choices(c) => valid_case(ctx, &mut Ch::new(c)),
                    _ => Err(Failure::new("this part replays from choices", "")),
                })),
            },
            Part {
                name: "perturbed",
                rounds,
                run: Box::new(|ctx, r| ctx.prop("perturbed", r, 1000, 500, perturbed_case)),
                replay: Some(Box::new(|ctx, inp| match inp {
                    ReplayInput::Choices(c) => perturbed_case(ctx, &mut Ch::new(c)),
                    _ => Err(Failure::new("this part replays from choices", "")),
                })),
            },
        ],
    }
}
