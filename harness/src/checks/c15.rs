//! C15 — Diagnostics point at the offending source text.

use crate::bridge::roundtrip_equal;
use crate::gens::layout;
use crate::gens::syn::{SynCfg, SynGen};
use crate::refs::listing;
use crate::runner::{CheckDef, Ctx, Failure, Outcome, Part, ReplayInput, Tier, catch};
use crate::sast;
use crate::term::{Term, Variant};
use crate::util::Ch;
use std::rc::Rc;

pub struct Planted {
    pub text: String,
    pub start: usize,
    pub end: usize,
    /// First line of the expected diagnostic, without the `[Error] ` prefix.
    pub head: String,
    pub family: &'static str,
    pub binder_form: &'static str,
    /// For the invisible mark at the start of a file: if no unexpected-symbol diagnostic is
    /// produced at all (an implementation may choose to ignore such a mark; whether it may is
    /// C09's business, not C15's), the second fault planted after the mark - if any - must be
    /// pointed at instead, in the coordinates of the file as given.
    pub fallback: Option<Option<(usize, usize, String)>>,
}

const DEF_NAMES: [&str; 10] = ["a", "b2", "é", "名", "λx", "x٣", "count", "_t", "ñandú", "w"];

struct Builder<'c, 'd> {
    ch: &'c mut Ch<'d>,
    text: String,
    nl: &'static str,
    defined: Vec<&'static str>,
}

impl Builder<'_, '_> {
    fn int_expr(&mut self, depth: usize) -> String {
        let k = self.ch.pick(if depth == 0 { 2 } else { 6 });
        match k {
            0 => self.ch.pick(100).to_string(),
            1 if !self.defined.is_empty() => self.defined[self.ch.pick(self.defined.len())].to_owned(),
            1 => "7".to_owned(),
            2 => format!("{} + {}", self.int_expr(depth - 1), self.int_expr(depth - 1)),
            3 => format!("({}) * {}", self.int_expr(depth - 1), self.int_expr(0)),
            4 => format!("(if {} < {} then {} else {})", self.int_expr(0), self.int_expr(0), self.int_expr(depth - 1), self.int_expr(0)),
            _ => format!("{} - {}", self.int_expr(depth - 1), self.int_expr(0)),
        }
    }

    fn prefix_lines(&mut self) {
        let n = match self.ch.pick(4) {
            0 => 0,
            1 => self.ch.pick(4),
            2 => self.ch.pick(12),
            _ => self.ch.pick(41),
        };
        for _ in 0..n {
            match self.ch.pick(5) {
                0 => self.text.push_str(self.nl),
                1 => {
                    let c = ["# comment", "# ünï ✓ 名前", "#", "   # indented"][self.ch.pick(4)];
                    self.text.push_str(c);
                    self.text.push_str(self.nl);
                }
                _ => {
                    if self.defined.len() < DEF_NAMES.len() {
                        let name = DEF_NAMES[self.defined.len()];
                        let e = self.int_expr(2);
                        self.text.push_str(&format!("{name} = {e}{}", self.nl));
                        self.defined.push(name);
                    } else {
                        self.text.push_str(self.nl);
                    }
                }
            }
        }
    }
}

fn indent(ch: &mut Ch) -> &'static str {
    ["  ", "    ", "\t", " "][ch.pick(4)]
}

/// Build one program with a planted fault of known span.
pub fn plant(ch: &mut Ch) -> Planted {
    let nl = if ch.chance(1, 6) { "\r\n" } else { "\n" };
    let mut b = Builder { ch, text: String::new(), nl, defined: vec![] };
    if b.ch.chance(1, 24) {
        // An invisible mark (byte order mark, zero-width space, word joiner, soft hyphen) as the
        // very first character of an otherwise valid or faulty file: it is not white space, so it
        // is an unexpected symbol, and everything after it keeps its place.
        let sym = ["\u{FEFF}", "\u{200B}", "\u{2060}", "\u{00AD}"][b.ch.pick(4)];
        b.text.push_str(sym);
        b.prefix_lines();
        let (e, second): (String, Option<(usize, usize, String)>) = match b.ch.pick(3) {
            0 => (b.int_expr(2), None),
            1 => ("nope + 1".to_owned(), Some((0, 4, "Variable `nope` not in scope.".to_owned()))),
            _ => ("1 + true".to_owned(), Some((4, 8, "This has type `bool`, but it should have type `int`:".to_owned()))),
        };
        let at = b.text.len();
        b.text.push_str(&e);
        if b.ch.chance(1, 2) {
            b.text.push_str(nl);
        }
        return Planted {
            text: std::mem::take(&mut b.text),
            start: 0,
            end: sym.len(),
            head: format!("Unexpected symbol `{sym}`."),
            family: "unexpected symbol: invisible mark at the very start of the file",
            binder_form: "",
            fallback: Some(second.map(|(s, e, h)| (at + s, at + e, h))),
        };
    }
    b.prefix_lines();
    // Optionally some (possibly non-ASCII) text earlier on the fault's own line.
    let same_line_def = b.ch.chance(1, 2);
    let family_pick = b.ch.pick(13);
    if family_pick == 12 {
        // A definition-order fault: the diagnostic names a definition; its excerpt must show
        // that definition's right-hand side (reached directly, through one function, or two).
        let hops = b.ch.pick(3);
        let mut lead = String::new();
        if same_line_def {
            lead = format!("{} = {}; ", ["é", "名", "λx", "ü2", "q"][b.ch.pick(5)], b.ch.pick(9));
        }
        let sep = |ch: &mut Ch| if ch.chance(1, 3) { "; ".to_owned() } else { nl.to_owned() };
        let fault = match hops {
            0 => ["ordy + 1", "(ordy * 2)", "if ordy < 1 then 1 else 2"][b.ch.pick(3)].to_owned(),
            _ => ["ordf 1", "ordf (2 + 3)", "1 + ordf 0"][b.ch.pick(3)].to_owned(),
        };
        let fns_first = b.ch.chance(1, 2);
        let fns = match hops {
            0 => String::new(),
            1 => format!("ordf = (ordp : int) => ordy + ordp{}", sep(b.ch)),
            _ => format!("ordf = (ordp : int) => ordg ordp{}ordg = (ordq : int) => ordq + ordy{}", sep(b.ch), sep(b.ch)),
        };
        if fns_first {
            b.text.push_str(&fns);
        }
        b.text.push_str(&lead);
        if b.ch.chance(1, 4) {
            b.text.push_str(&format!("ordz ={nl}{}", indent(b.ch)));
        } else {
            b.text.push_str("ordz = ");
        }
        let start = b.text.len();
        b.text.push_str(&fault);
        let end = b.text.len();
        b.text.push_str(nl);
        if !fns_first {
            b.text.push_str(&fns);
        }
        b.text.push_str(&format!("ordy = 1 + 1{nl}ordz"));
        if b.ch.chance(1, 2) {
            b.text.push_str(nl);
        }
        let head = "The definition of `ordz` references `ordy` (directly or indirectly), which will not be available in time during evaluation.".to_owned();
        return Planted { text: std::mem::take(&mut b.text), start, end, head, family: "definition order: excerpt of the named definition", binder_form: "", fallback: None };
    }
    let mut lead = String::new();
    if same_line_def && b.defined.len() < DEF_NAMES.len() && family_pick != 11 {
        // `name = expr; ` before the fault on the same line.
        let name = ["é", "名", "λx", "ü2", "q"][b.ch.pick(5)];
        if !b.defined.contains(&name) {
            let e = b.int_expr(1);
            lead = format!("{name} = {e}; ");
            b.defined.push(name);
        }
    }
    let int_var: Option<&'static str> = if b.defined.is_empty() { None } else { Some(b.defined[b.ch.pick(b.defined.len())]) };
    // The fault text and the statement around it: (before, fault, after, head, family, form).
    let (before, fault, after, head, family, form): (String, String, String, String, &'static str, &'static str) = match family_pick {
        0 | 1 => {
            let name = ["zz", "ünbound", "iffy", "typo_1"][b.ch.pick(4)];
            let (pre, post) = int_context(b.ch, nl);
            (pre, name.to_owned(), post, format!("Variable `{name}` not in scope."), "unbound name", "")
        }
        2 | 3 => {
            let f = match b.ch.pick(6) {
                0 => "true".to_owned(),
                1 => "false".to_owned(),
                2 => "(1 < 2)".to_owned(),
                3 => "(if true then false else true)".to_owned(),
                4 => format!("(if true{nl}      then false{nl}      else true)"),
                _ => "(true)".to_owned(),
            };
            let (mut pre, mut post) = int_context(b.ch, nl);
            if pre.is_empty() && post.is_empty() {
                pre = "2 * ".to_owned();
                post = String::new();
            }
            (pre, f, post, "This has type `bool`, but it should have type `int`:".to_owned(), "type: bool operand where int is required", "")
        }
        4 => {
            let n = match (b.ch.pick(3), int_var) {
                (0, _) | (_, None) => "5".to_owned(),
                (1, _) => "(1 + 2)".to_owned(),
                (_, Some(v)) => v.to_owned(),
            };
            ("if ".to_owned(), n, " then 1 else 2".to_owned(), "This has type `int`, but it should have type `bool`:".to_owned(), "type: int condition", "")
        }
        5 => {
            let f = ["5", "(1 + 2)", "true"][b.ch.pick(3)];
            let ty = if f == "true" { "bool" } else { "int" };
            (String::new(), f.to_owned(), " 1".to_owned(), format!("This has type `{ty}` when a function was expected:"), "type: non-function applied", "")
        }
        6 => {
            let f = ["true", "(1 < 2)", "false"][b.ch.pick(3)];
            ("((p : int) => p + 1) ".to_owned(), f.to_owned(), String::new(), "This has type `bool`, but the function was expecting an argument of type `int`:".to_owned(), "type: wrong argument", "")
        }
        7 => {
            let f = ["5", "(2 * 3)"][b.ch.pick(2)];
            ("(p : ".to_owned(), f.to_owned(), [") => p", ") -> int"][b.ch.pick(2)].to_owned(), "This is not a type:".to_owned(), "type: annotation is not a type", "")
        }
        8 => {
            let f = format!("if true then 1 else {}", ["false", "(1 < 2)"][b.ch.pick(2)]);
            let f = if b.ch.chance(1, 2) { f.replace(" then", &format!("{nl}    then")).replace(" else", &format!("{nl}    else")) } else { f };
            ("1 + (".to_owned(), f, ")".to_owned(), "The two branches of this conditional don\u{2019}t match. The first branch has type `int`, but the second branch has type `bool`.".to_owned(), "type: branches differ", "")
        }
        9 | 10 if int_var.is_some() => {
            let d = int_var.unwrap();
            let (pre, post, form) = match b.ch.pick(8) {
                0 => (String::new(), " => 1".to_owned(), "x => e"),
                1 => ("{".to_owned(), "} => 1".to_owned(), "{x} => e"),
                2 => ("(".to_owned(), " : int) => 1".to_owned(), "(x : A) => e"),
                3 => ("{".to_owned(), " : int} => 1".to_owned(), "{x : A} => e"),
                4 => ("(".to_owned(), " : int) -> int".to_owned(), "(x : A) -> B"),
                5 => ("{".to_owned(), " : int} -> int".to_owned(), "{x : A} -> B"),
                6 => ("(".to_owned(), " = 2; 3)".to_owned(), "x = e"),
                _ => ("(".to_owned(), " : int = 2; 3)".to_owned(), "x : A = e"),
            };
            (pre, d.to_owned(), post, format!("Variable `{d}` already exists."), "re-bound name", form)
        }
        9 | 10 => {
            let (pre, post) = int_context(b.ch, nl);
            (pre, "nope".to_owned(), post, "Variable `nope` not in scope.".to_owned(), "unbound name", "")
        }
        _ => {
            let sym = ["$", "@", "\u{00A7}", "🙂", "$\u{0301}", "`", "\\", "👩\u{200D}💻", "\u{FEFF}", "\u{200B}"][b.ch.pick(10)];
            let (pre, post) = int_context(b.ch, nl);
            (pre, sym.to_owned(), post, format!("Unexpected symbol `{sym}`."), "unexpected symbol", "")
        }
    };
    // Where the statement goes: as a definition's right-hand side or as the final expression.
    let as_definition = b.ch.chance(1, 2) && family != "type: annotation is not a type";
    let cont = b.ch.chance(1, 4);
    let ind = indent(b.ch);
    b.text.push_str(&lead);
    if as_definition {
        if family == "type: int condition" || family == "re-bound name" || cont {
            b.text.push_str(&format!("res ={nl}{ind}"));
        } else {
            b.text.push_str("res = ");
        }
    } else if !lead.is_empty() {
        // `lead` ended in "; " and the final expression follows on the same line.
    }
    b.text.push_str(&before);
    let start = b.text.len();
    b.text.push_str(&fault);
    let end = b.text.len();
    b.text.push_str(&after);
    if as_definition {
        b.text.push_str(nl);
        b.text.push_str("0");
    }
    // Trailing newline or not.
    if b.ch.chance(1, 2) {
        b.text.push_str(nl);
    }
    // An invisible mark that happens to be the first character of the file: see `fallback`.
    let fallback = if start == 0 && matches!(fault.as_str(), "\u{FEFF}" | "\u{200B}") { Some(None) } else { None };
    Planted { text: std::mem::take(&mut b.text), start, end, head, family, binder_form: form, fallback }
}

fn int_context(ch: &mut Ch, nl: &str) -> (String, String) {
    match ch.pick(7) {
        0 => (String::new(), String::new()),
        1 => ("1 + ".to_owned(), String::new()),
        2 => (String::new(), " - 1".to_owned()),
        3 => ("(2 + ".to_owned(), ") * 3".to_owned()),
        4 => (format!("1 +{nl}    "), String::new()),
        5 => ("10 / (4 - ".to_owned(), ")".to_owned()),
        _ => ("if 0 < ".to_owned(), " then 1 else 0".to_owned()),
    }
}

/// Run the library pipeline and collect all diagnostics.
pub fn diagnostics(text: &str) -> Result<Vec<String>, String> {
    catch(|| {
        let toks = match crate::tokenizer::tokenize(None, text) {
            Ok(t) => t,
            Err(e) => return e.iter().map(|x| x.message.clone()).collect(),
        };
        let term = match crate::parser::parse(None, text, &toks, &[]) {
            Ok(t) => t,
            Err(e) => return e.iter().map(|x| x.message.clone()).collect(),
        };
        match crate::type_checker::type_check(None, text, &term, &mut vec![], &mut vec![]) {
            Ok(_) => vec![],
            Err(e) => e.iter().map(|x| x.message.clone()).collect(),
        }
    })
}

pub fn check_planted(p: &Planted) -> Result<bool, Failure> {
    let input = format!("{:?} with the fault at bytes {}..{} ({:?})", p.text, p.start, p.end, &p.text[p.start..p.end]);
    let diags = diagnostics(&p.text).map_err(|e| Failure::new(format!("panic: {e}"), input.clone()).with_sig("panic"))?;
    if let Some(fb) = &p.fallback {
        if !diags.iter().any(|d| d.contains("Unexpected symbol")) {
            return match fb {
                None => Ok(false),
                Some((s, e, head)) => check_planted(&Planted { text: p.text.clone(), start: *s, end: *e, head: head.clone(), family: p.family, binder_form: "", fallback: None }),
            };
        }
    }
    // Some diagnostic must carry an excerpt that shows exactly the planted span (the wording of the
    // message is not part of the property; it is only used to explain a failure).
    let fault_text = &p.text[p.start..p.end];
    let spans: Vec<(usize, usize)> = {
        let mut v = vec![(p.start, p.end)];
        // The expression with or without parentheses that enclose nothing but it.
        if fault_text.starts_with('(') && fault_text.ends_with(')') && p.end - p.start > 2 {
            v.push((p.start + 1, p.end - 1));
        }
        let before = p.text[..p.start].trim_end();
        let after = p.text[p.end..].trim_start();
        if before.ends_with('(') && after.starts_with(')') {
            v.push((before.len() - 1, p.text.len() - after.len() + 1));
        }
        // The same through comments and line breaks, and through several levels: by tokens.
        if let Ok(Ok(toks)) = catch(|| crate::tokenizer::tokenize(None, &p.text)) {
            let toks: Vec<_> = toks.iter().filter(|t| !matches!(t.variant, crate::token::Variant::Terminator(crate::token::TerminatorType::LineBreak))).collect();
            let (mut s, mut e) = (p.start, p.end);
            loop {
                let prev = toks.iter().rev().find(|t| t.source_range.end <= s);
                let next = toks.iter().find(|t| t.source_range.start >= e);
                match (prev, next) {
                    (Some(a), Some(b)) if matches!(a.variant, crate::token::Variant::LeftParen) && matches!(b.variant, crate::token::Variant::RightParen) => {
                        s = a.source_range.start;
                        e = b.source_range.end;
                        v.push((s, e));
                    }
                    _ => break,
                }
            }
        }
        v
    };
    let points_at_fault = |d: &String| {
        d.split_once("\n\n").is_some_and(|(_, listing_text)| spans.iter().any(|(s, e)| listing::compare(listing_text, &p.text, *s, *e).is_ok()))
    };
    if !diags.iter().any(points_at_fault) {
        let want_head = format!("[Error] {}", p.head);
        let detail = match diags.iter().find(|d| d.lines().next() == Some(want_head.as_str())) {
            Some(d) => match d.split_once("\n\n") {
                Some((_, listing_text)) => format!("`{}`: {}\n{listing_text}", p.head, listing::compare(listing_text, &p.text, p.start, p.end).err().unwrap_or_default()),
                None => format!("the diagnostic `{}` carries no source excerpt", p.head),
            },
            None => format!("no diagnostic points at the fault; diagnostics: {:?}", diags.iter().map(|d| d.lines().next().unwrap_or("").to_owned()).collect::<Vec<_>>()),
        };
        let mut f = Failure::new(detail, input);
        // Signatures of the two recorded (and since repaired) defects, for attribution only.
        if p.binder_form == "{x} => e" {
            f = f.with_sig("implicit-lambda-binder-range");
        } else {
            let lines = listing::expected(&p.text, p.start, p.end);
            let non_ascii_before = lines.iter().any(|l| {
                let upto = l.full.iter().max().map_or(0, |m| m + 1);
                l.text.chars().take(upto).any(|c| c.len_utf8() > 1)
            });
            if non_ascii_before {
                f = f.with_sig("overline-placed-by-bytes");
            }
        }
        return Err(f);
    }
    let lines = listing::expected(&p.text, p.start, p.end);
    let first = &lines[0];
    let non_ascii_before = first.text.chars().take(first.full.first().copied().unwrap_or(0)).any(|c| c.len_utf8() > 1);
    Ok(first.number > 1 || non_ascii_before || lines.len() > 1)
}

fn planted_case(ctx: &Ctx, ch: &mut Ch) -> Outcome {
    let p = plant(ch);
    let nontrivial = check_planted(&p)?;
    ctx.class(&format!("fault family: {}", p.family));
    if !p.binder_form.is_empty() {
        ctx.class(&format!("binder form: {}", p.binder_form));
    }
    if p.text.contains("\r\n") {
        ctx.class("CRLF line endings");
    }
    if nontrivial {
        ctx.nontrivial(&format!("{:?} @{}..{}", p.text, p.start, p.end));
    }
    Ok(())
}

// ---------------------------------------------------------------------------------------------
// White-box companion: every subterm's source range re-parses to the same subterm.
// ---------------------------------------------------------------------------------------------

fn check_ranges(text: &str, term: &Term, scope: &mut Vec<String>, parent: Option<(usize, usize)>, count: &mut usize) -> Result<(), String> {
    let Some(r) = term.source_range else {
        // Only omitted annotations have no range.
        return if matches!(term.variant, Variant::Unifier(..)) { Ok(()) } else { Err(format!("subterm `{term}` has no source range")) };
    };
    if !(r.start <= r.end && r.end <= text.len() && text.is_char_boundary(r.start) && text.is_char_boundary(r.end)) {
        return Err(format!("range {}..{} of `{term}` is outside the file or not on character boundaries", r.start, r.end));
    }
    if let Some((ps, pe)) = parent {
        if !(ps <= r.start && r.end <= pe) {
            return Err(format!("range {}..{} of `{term}` is not inside its parent's range {ps}..{pe}", r.start, r.end));
        }
    }
    // Re-parse the slice in the scope of this position.
    let slice = &text[r.start..r.end];
    let ctx_names: Vec<&str> = scope.iter().map(String::as_str).collect();
    let toks = crate::tokenizer::tokenize(None, slice).map_err(|e| format!("the text {slice:?} of subterm `{term}` does not tokenize: {}", e[0].message.lines().next().unwrap_or("")))?;
    match crate::parser::parse(None, slice, &toks, &ctx_names) {
        Ok(back) => roundtrip_equal(term, &back).map_err(|d| format!("the text {slice:?} at {}..{} re-parses to a different subterm than `{term}`: {d}", r.start, r.end))?,
        Err(e) => {
            let k = crate::bridge::classify_parse_errors(&e);
            // A slice may legitimately trip the definition-order check on its own.
            if k.syntax > 0 || !k.not_in_scope.is_empty() || !k.already_exists.is_empty() {
                if closes_unopened_parenthesis(slice) {
                    return Err(format!("{SIG_RANGE_MARK}the range {}..{} of subterm `{term}` cuts through the parentheses of a grouped chain operand: its text is {slice:?}", r.start, r.end));
                }
                return Err(format!("the text {slice:?} at {}..{} of subterm `{term}` does not parse in its scope {ctx_names:?}: {}", r.start, r.end, e[0].message.lines().next().unwrap_or("")));
            }
        }
    }
    *count += 1;
    let me = Some((r.start, r.end));
    let mut placeholder = |scope: &mut Vec<String>, n: &str| {
        // `_` binds nothing: occupy the slot with a name no program can mention.
        if n == "_" { scope.push(format!("\u{1}slot{}", scope.len())) } else { scope.push(n.to_owned()) }
    };
    match &term.variant {
        Variant::Lambda(n, _, a, b) | Variant::Pi(n, _, a, b) => {
            check_ranges(text, a, scope, me, count)?;
            placeholder(scope, n);
            let r = check_ranges(text, b, scope, me, count);
            scope.pop();
            r
        }
        Variant::Application(a, b)
        | Variant::Sum(a, b)
        | Variant::Difference(a, b)
        | Variant::Product(a, b)
        | Variant::Quotient(a, b)
        | Variant::LessThan(a, b)
        | Variant::LessThanOrEqualTo(a, b)
        | Variant::EqualTo(a, b)
        | Variant::GreaterThan(a, b)
        | Variant::GreaterThanOrEqualTo(a, b) => {
            check_ranges(text, a, scope, me, count)?;
            check_ranges(text, b, scope, me, count)
        }
        Variant::Negation(a) => check_ranges(text, a, scope, me, count),
        Variant::If(a, b, c) => {
            check_ranges(text, a, scope, me, count)?;
            check_ranges(text, b, scope, me, count)?;
            check_ranges(text, c, scope, me, count)
        }
        Variant::Let(defs, body) => {
            let base = scope.len();
            for (n, _, _) in defs {
                placeholder(scope, n);
            }
            let mut r = Ok(());
            for (_, a, d) in defs {
                r = check_ranges(text, a, scope, me, count).and_then(|()| check_ranges(text, d, scope, me, count));
                if r.is_err() {
                    break;
                }
            }
            if r.is_ok() {
                r = check_ranges(text, body, scope, me, count);
            }
            scope.truncate(base);
            r
        }
        _ => Ok(()),
    }
}

pub const SIG_RANGE_INSIDE_PARENS: &str = "range-cuts-parenthesis-of-grouped-chain-operand";
const SIG_RANGE_MARK: &str = "\u{2}";

/// The slice closes a parenthesis it never opened: the shape of the recorded finding (a chain whose
/// first operand is a parenthesised chain gets a range that starts after the `(`).
fn closes_unopened_parenthesis(slice: &str) -> bool {
    let mut depth = 0i32;
    let mut in_comment = false;
    for c in slice.chars() {
        match c {
            '\n' => in_comment = false,
            '#' => in_comment = true,
            '(' if !in_comment => depth += 1,
            ')' if !in_comment => {
                depth -= 1;
                if depth < 0 {
                    return true;
                }
            }
            _ => {}
        }
    }
    // ... or opens one it never closes (the grouped chain is the last operand before the cut).
    depth > 0
}

fn ranges_case(ctx: &Ctx, ch: &mut Ch) -> Outcome {
    let fuel = 1 + ch.pick(4);
    let cfg = SynCfg { paren_16: 2, ..SynCfg::default() };
    let context = ["c0"];
    let mut g = SynGen::new(ch, cfg, &context);
    let s = g.term(fuel).flatten();
    let toks = sast::print_tokens(&s);
    if toks.len() > 120 {
        ctx.class("skipped: more than 120 tokens");
        return Ok(());
    }
    let (text, st) = layout::render(&toks, ch);
    let r = catch(|| {
        let gt = crate::tokenizer::tokenize(None, &text).map_err(|e| format!("layout does not tokenize: {}", e[0].message))?;
        let term = match crate::parser::parse(None, &text, &gt, &context) {
            Ok(t) => t,
            Err(_) => return Ok(None),
        };
        let mut count = 0;
        check_ranges(&text, &term, &mut vec!["c0".to_owned()], None, &mut count)?;
        Ok::<_, String>(Some(count))
    })
    .map_err(|p| Failure::new(format!("panic: {p}"), format!("{text:?}")).with_sig("panic"))?;
    match r {
        Err(why) => {
            if let Some(rest) = why.strip_prefix(SIG_RANGE_MARK) {
                Err(Failure::new(rest, format!("{text:?}")).with_sig(SIG_RANGE_INSIDE_PARENS))
            } else {
                Err(Failure::new(why, format!("{text:?}")))
            }
        }
        Ok(None) => {
            ctx.class("rejected by the parser (definition order); skipped");
            Ok(())
        }
        Ok(Some(n)) => {
            ctx.class("all subterm ranges re-parse to the same subterm");
            if n >= 5 && (st.nonsep_breaks > 0 || text.chars().any(|c| c.len_utf8() > 1)) {
                ctx.nontrivial(&format!("{text:?}"));
            }
            Ok(())
        }
    }
}

// ---------------------------------------------------------------------------------------------
// Type faults at any subterm position of generated programs.
// ---------------------------------------------------------------------------------------------

#[derive(Clone, Copy, PartialEq, Eq, Debug)]
enum Site {
    IntOperand,
    Condition,
    Applicand,
    TypePosition,
}

/// Every position of `term` whose expected type is fixed by the syntax around it.
fn fault_sites(term: &Term, depth: usize, out: &mut Vec<(usize, usize, Site, usize)>) {
    let mut site = |t: &Term, k: Site, out: &mut Vec<(usize, usize, Site, usize)>| {
        if let Some(r) = t.source_range {
            out.push((r.start, r.end, k, depth + 1));
        }
    };
    match &term.variant {
        Variant::Sum(a, b)
        | Variant::Difference(a, b)
        | Variant::Product(a, b)
        | Variant::Quotient(a, b)
        | Variant::LessThan(a, b)
        | Variant::LessThanOrEqualTo(a, b)
        | Variant::EqualTo(a, b)
        | Variant::GreaterThan(a, b)
        | Variant::GreaterThanOrEqualTo(a, b) => {
            site(a, Site::IntOperand, out);
            site(b, Site::IntOperand, out);
            fault_sites(a, depth + 1, out);
            fault_sites(b, depth + 1, out);
        }
        Variant::Negation(a) => {
            site(a, Site::IntOperand, out);
            fault_sites(a, depth + 1, out);
        }
        Variant::If(c, t, e) => {
            site(c, Site::Condition, out);
            fault_sites(c, depth + 1, out);
            fault_sites(t, depth + 1, out);
            fault_sites(e, depth + 1, out);
        }
        Variant::Application(f, a) => {
            site(f, Site::Applicand, out);
            fault_sites(f, depth + 1, out);
            fault_sites(a, depth + 1, out);
        }
        Variant::Lambda(_, _, d, b) => {
            site(d, Site::TypePosition, out);
            fault_sites(d, depth + 1, out);
            fault_sites(b, depth + 1, out);
        }
        Variant::Pi(_, _, d, c) => {
            site(d, Site::TypePosition, out);
            site(c, Site::TypePosition, out);
            fault_sites(d, depth + 1, out);
            fault_sites(c, depth + 1, out);
        }
        Variant::Let(defs, body) => {
            for (_, ann, def) in defs {
                site(ann, Site::TypePosition, out);
                fault_sites(ann, depth + 1, out);
                fault_sites(def, depth + 1, out);
            }
            fault_sites(body, depth + 1, out);
        }
        _ => {}
    }
}

/// A well-typed generated program (optionally under a multi-line layout with comments) in which
/// one subterm, at a position whose expected type the syntax fixes, is replaced by a closed term
/// of another type: some diagnostic must show exactly the replacement.
fn deep_case(ctx: &Ctx, ch: &mut Ch) -> Outcome {
    use crate::gens::prog::{self, ProgCfg};
    let cfg = ProgCfg { forward_aliases: false, ..ProgCfg::default() };
    let kind = [0, 1, 2][ch.pick(3)];
    let fuel = 2 + ch.pick(4);
    let Some(p) = prog::gen_program(ch, cfg, kind, fuel) else {
        ctx.class("generator: gave up");
        return Ok(());
    };
    if p.text.len() > 2500 {
        ctx.class("skipped: longer than 2500 bytes");
        return Ok(());
    }
    let text = if ch.chance(1, 2) { layout::render(&sast::print_tokens(&p.s), ch).0 } else { p.text.clone() };
    let sites = catch(|| {
        let toks = crate::tokenizer::tokenize(None, &text).ok()?;
        let term = crate::parser::parse(None, &text, &toks, &[]).ok()?;
        let mut v = vec![];
        fault_sites(&term, 0, &mut v);
        Some(v)
    })
    .map_err(|e| Failure::new(format!("panic: {e}"), format!("{text:?}")).with_sig("panic"))?;
    let Some(sites) = sites else {
        ctx.class("the generated program does not parse (outside this part)");
        return Ok(());
    };
    if sites.is_empty() {
        ctx.class("no position with a syntactically fixed type");
        return Ok(());
    }
    let (s, e, site, depth) = sites[ch.pick(sites.len())];
    let (snippet, head): (String, String) = match site {
        Site::IntOperand => {
            let f = ["true", "false", "(1 < 2)", "(if true then false else true)", "(if true\n      then false\n      else true)", "(zq9 = true; zq9)", "(((zp9 : bool) => zp9) false)"][ch.pick(7)];
            (f.to_owned(), "This has type `bool`, but it should have type `int`:".to_owned())
        }
        // The offending subexpression in every syntactic form of its type (forms that do not
        // parse at the position are skipped below).
        Site::Condition => (
            ["5", "(1 + 2)", "-7", "(-3)", "-(1 + 2)", "(if true then 1 else 2)", "(zq9 = 1; zq9)", "((zp9 : int) => zp9) 1"][ch.pick(8)].to_owned(),
            "This has type `int`, but it should have type `bool`:".to_owned(),
        ),
        Site::Applicand => {
            let f = ["5", "(1 + 2)", "true", "(-3)", "(if true then 1 else 2)", "(zq9 = 1; zq9)"][ch.pick(6)];
            (f.to_owned(), format!("This has type `{}` when a function was expected:", if f == "true" { "bool" } else { "int" }))
        }
        Site::TypePosition => (["5", "(2 * 3)", "-1", "(-2)", "(if true then 1 else 2)", "(zq9 = 1; zq9)"][ch.pick(6)].to_owned(), "This is not a type:".to_owned()),
    };
    // Keep the replacement a separate token.
    let needs_space_before = text[..s].chars().next_back().is_some_and(|c| c.is_alphanumeric() || c == '_');
    let needs_space_after = text[e..].chars().next().is_some_and(|c| c.is_alphanumeric() || c == '_');
    let mut mutated = String::with_capacity(text.len() + snippet.len());
    mutated.push_str(&text[..s]);
    if needs_space_before {
        mutated.push(' ');
    }
    let start = mutated.len();
    mutated.push_str(&snippet);
    let end = mutated.len();
    if needs_space_after {
        mutated.push(' ');
    }
    mutated.push_str(&text[e..]);
    let family: &'static str = match site {
        Site::IntOperand => "deep: bool operand where int is required",
        Site::Condition => "deep: int condition",
        Site::Applicand => "deep: non-function applied",
        Site::TypePosition => "deep: annotation / domain / codomain is not a type",
    };
    // The replacement must leave a program that still parses. (It does not when the replaced
    // range cut through parentheses - the recorded finding about grouped chain operands.)
    let parses = catch(|| crate::tokenizer::tokenize(None, &mutated).ok().is_some_and(|toks| crate::parser::parse(None, &mutated, &toks, &[]).is_ok()))
        .map_err(|e| Failure::new(format!("panic: {e}"), format!("{mutated:?}")).with_sig("panic"))?;
    if !parses {
        ctx.class("deep: the replacement does not parse (replaced range cut through parentheses); skipped");
        return Ok(());
    }
    let planted = Planted { text: mutated, start, end, head, family, binder_form: "", fallback: None };
    let multi_line = check_planted(&planted)?;
    ctx.class(&format!("fault family: {family}"));
    ctx.class(&format!("deep: fault at depth {}", if depth >= 8 { ">= 8".to_owned() } else { depth.to_string() }));
    if depth >= 3 || multi_line {
        ctx.nontrivial(&format!("{:?} @{}..{}", planted.text, planted.start, planted.end));
    }
    Ok(())
}

const REGRESSIONS: [(&str, &str, &str); 4] = [
    ("a = 1; {a} => a", "a", "Variable `a` already exists."),
    ("é = 1; é + true", "true", "This has type `bool`, but it should have type `int`:"),
    ("名前 = 1\n名前 + (名前 < 2)", "(名前 < 2)", "This has type `bool`, but it should have type `int`:"),
    ("x = 1\n\n# c\n  x + zz", "zz", "Variable `zz` not in scope."),
];

pub fn def(tier: Tier) -> CheckDef {
    let rounds = tier.pick(40, 400);
    CheckDef {
        id: "C15",
        level: "exploration",
        rule: "proptest-generated rejected programs with one planted fault of known byte span (unbound name; re-bound name in all eight binder forms; seven kinds of type fault whose offending subexpression is an atom, a parenthesised operator expression, or a multi-line conditional; stray symbols incl. emoji, combining sequences and invisible marks (byte order mark, zero-width space), also as the very first character of the file; a definition-order fault reached directly or through one or two functions, whose excerpt must show the right-hand side of the definition the message names), placed after 0-40 lines of definitions / comments / blank lines, after non-ASCII text on the same line, on indented continuation lines, with LF or CRLF, with and without a final line break; oracle = the diagnostic of the expected family exists and its excerpt shows exactly the spanned lines, their 1-based numbers, and overline columns equal to the span's characters (leading indentation of continuation lines and trailing whitespace optional); plus type-directed generated well-typed programs (optionally under a generated multi-line layout with comments) in which one subterm at a position whose expected type the syntax fixes (operand of an arithmetic or comparison operator, condition, applicand, annotation / domain / codomain) is replaced by a closed term of another type - some diagnostic must show exactly the replacement; plus, for generated programs under generated multi-line layouts, every subterm's source range lies in the file on character boundaries, nests in its parent's, and its text re-parses in that scope to the same subterm; non-trivial = fault not on line 1, or non-ASCII text before it on its line, or a multi-line span (for the range part: >= 5 subterms and a multi-line or non-ASCII layout); distinct by text",
        assumptions: vec![
            "a type error about a parenthesised expression points at the expression including its parentheses (the parser documents that a group's range includes them)",
            "the overline row is compared in characters, as the property states",
        ],
        idle_limit_s: 300,
        needs_cli: false,
        fuzz: None,
        parts: vec![
            Part {
                name: "regressions",
                rounds: 1,
                run: Box::new(|ctx, _| {
                    if ctx.shard != 0 {
                        return;
                    }
                    for (text, fault, head) in REGRESSIONS {
                        let start = text.rfind(fault).unwrap();
                        let start = if head.contains("already exists") { text.find("{a}").unwrap() + 1 } else { start };
                        let p = Planted { text: text.to_owned(), start, end: start + fault.len(), head: head.to_owned(), family: "regression", binder_form: if head.contains("already") { "{x} => e" } else { "" }, fallback: None };
                        ctx.evaluated(1);
                        match check_planted(&p) {
                            Ok(_) => ctx.nontrivial(text),
                            Err(f) => ctx.settle(Err(f)),
                        }
                    }
                }),
                replay: None,
            },
            Part {
                name: "planted",
                rounds,
                run: Box::new(|ctx, r| ctx.prop("planted", r, 1000, 200, planted_case)),
                replay: Some(Box::new(|ctx, inp| match inp {
                    ReplayInput::Choices(c) => planted_case(ctx, &mut Ch::new(c)),
                    _ => Err(Failure::new("this part replays from choices", "")),
                })),
            },
            Part {
                name: "deep",
                rounds,
                run: Box::new(|ctx, r| ctx.prop("deep", r, 400, 800, deep_case)),
                replay: Some(Box::new(|ctx, inp| match inp {
                    ReplayInput::Choices(c) => deep_case(ctx, &mut Ch::new(c)),
                    _ => Err(Failure::new("this part replays from choices", "")),
                })),
            },
            Part {
                name: "ranges",
                rounds,
                run: Box::new(|ctx, r| ctx.prop("ranges", r, 400, 1200, ranges_case)),
                replay: Some(Box::new(|ctx, inp| match inp {
                    ReplayInput::Choices(c) => ranges_case(ctx, &mut Ch::new(c)),
                    _ => Err(Failure::new("this part replays from choices", "")),
                })),
            },
        ],
    }
}
