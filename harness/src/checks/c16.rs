//! C16 — Printed terms read back as the same term.

use crate::bridge::{position_pairs, roundtrip_equal};
use crate::gens::syn::{SynCfg, SynGen};
use crate::runner::{CheckDef, Ctx, Failure, Outcome, Part, ReplayInput, Tier, catch};
use crate::sast::{self, Def, PLACEHOLDER, S};
use crate::term::{Term, Variant};
use crate::tok;
use crate::util::Ch;
use std::collections::BTreeSet;

pub const SIG_IMPLICIT_UNUSED_PI: &str = "implicit-pi-with-unused-parameter";
pub const SIG_FOREIGN_NAMES: &str = "inferred-annotation-displays-foreign-variable-name";

/// Does the (parsed) term contain an implicit pi whose parameter does not occur in its codomain?
fn has_implicit_unused_pi(t: &Term) -> bool {
    let mut found = false;
    walk(t, &mut |x| {
        if let Variant::Pi(_, true, _, c) = &x.variant {
            let mut fv = BTreeSet::new();
            crate::dterm::D::from_gram(c).free(0, &mut fv);
            if !fv.contains(&0) {
                found = true;
            }
        }
    });
    found
}

fn walk(t: &Term, f: &mut impl FnMut(&Term)) {
    f(t);
    match &t.variant {
        Variant::Unifier(c, _) => {
            let inner = c.borrow().clone();
            if let Some(i) = inner {
                walk(&i, f);
            }
        }
        Variant::Lambda(_, _, a, b) | Variant::Pi(_, _, a, b) | Variant::Application(a, b) => {
            walk(a, f);
            walk(b, f);
        }
        Variant::Let(defs, body) => {
            for (_, a, d) in defs {
                walk(a, f);
                walk(d, f);
            }
            walk(body, f);
        }
        Variant::Negation(a) => walk(a, f),
        Variant::Sum(a, b)
        | Variant::Difference(a, b)
        | Variant::Product(a, b)
        | Variant::Quotient(a, b)
        | Variant::LessThan(a, b)
        | Variant::LessThanOrEqualTo(a, b)
        | Variant::EqualTo(a, b)
        | Variant::GreaterThan(a, b)
        | Variant::GreaterThanOrEqualTo(a, b) => {
            walk(a, f);
            walk(b, f);
        }
        Variant::If(a, b, c) => {
            walk(a, f);
            walk(b, f);
            walk(c, f);
        }
        _ => {}
    }
}

/// Make implicit pis whose parameter is unused explicit (the recorded finding), except when `keep`.
fn exclude_known_shape(s: &mut S, scope_uses: &dyn Fn(&S, &str) -> bool, ch: &mut Ch, excluded: &mut usize) {
    match s {
        S::Pi { name, implicit, dom, cod } => {
            exclude_known_shape(dom, scope_uses, ch, excluded);
            exclude_known_shape(cod, scope_uses, ch, excluded);
            if *implicit {
                let used = name.as_ref().is_some_and(|n| n != PLACEHOLDER && scope_uses(cod, n));
                if !used && !ch.chance(1, 40) {
                    *implicit = false;
                    *excluded += 1;
                }
            }
        }
        S::Lam { ann, body, .. } => {
            if let Some(a) = ann {
                exclude_known_shape(a, scope_uses, ch, excluded);
            }
            exclude_known_shape(body, scope_uses, ch, excluded);
        }
        S::App(a, b) | S::Bin(_, a, b) => {
            exclude_known_shape(a, scope_uses, ch, excluded);
            exclude_known_shape(b, scope_uses, ch, excluded);
        }
        S::Neg(a) | S::Paren(a) => exclude_known_shape(a, scope_uses, ch, excluded),
        S::If(a, b, c) => {
            exclude_known_shape(a, scope_uses, ch, excluded);
            exclude_known_shape(b, scope_uses, ch, excluded);
            exclude_known_shape(c, scope_uses, ch, excluded);
        }
        S::Let { defs, body } => {
            for d in defs.iter_mut() {
                if let Some(a) = &mut d.ann {
                    exclude_known_shape(a, scope_uses, ch, excluded);
                }
                exclude_known_shape(&mut d.def, scope_uses, ch, excluded);
            }
            exclude_known_shape(body, scope_uses, ch, excluded);
        }
        _ => {}
    }
}

fn mentions(s: &S, name: &str) -> bool {
    match s {
        S::Var(n) => n == name,
        S::Lam { ann, body, .. } => ann.as_ref().is_some_and(|a| mentions(a, name)) || mentions(body, name),
        S::Pi { dom, cod, .. } => mentions(dom, name) || mentions(cod, name),
        S::App(a, b) | S::Bin(_, a, b) => mentions(a, name) || mentions(b, name),
        S::Neg(a) | S::Paren(a) => mentions(a, name),
        S::If(a, b, c) => mentions(a, name) || mentions(b, name) || mentions(c, name),
        S::Let { defs, body } => defs.iter().any(|d| d.ann.as_ref().is_some_and(|a| mentions(a, name)) || mentions(&d.def, name)) || mentions(body, name),
        _ => false,
    }
}

/// Round-trip one term: print, tokenize, parse in the same scope, compare.
pub fn roundtrip(term: &Term, context: &[&str], shown_source: &str) -> Outcome {
    let printed = term.to_string();
    let input = format!("source `{shown_source}` prints as `{printed}`");
    let sig = has_implicit_unused_pi(term);
    let with_sig = |f: Failure| if sig { f.with_sig(SIG_IMPLICIT_UNUSED_PI) } else { f };
    let r = catch(|| {
        let toks = match crate::tokenizer::tokenize(None, &printed) {
            Ok(t) => t,
            Err(e) => return Err(format!("the printed text does not tokenize: {:?}", e.iter().map(|x| x.message.lines().next().unwrap_or("").to_owned()).collect::<Vec<_>>())),
        };
        match crate::parser::parse(None, &printed, &toks, context) {
            Ok(back) => roundtrip_equal(term, &back).map_err(|d| format!("{d}; the re-parse prints as `{back}`")),
            Err(e) => Err(format!("the printed text does not parse: {:?}", e.iter().map(|x| x.message.lines().next().unwrap_or("").to_owned()).collect::<Vec<_>>())),
        }
    });
    match r {
        Err(p) => Err(Failure::new(format!("panic during the round trip: {p}"), input).with_sig("panic")),
        Ok(Err(msg)) => Err(with_sig(Failure::new(msg, input))),
        Ok(Ok(())) => Ok(()),
    }
}

fn parsed_case(ctx: &Ctx, ch: &mut Ch) -> Outcome {
    let fuel = 1 + ch.pick(5);
    let cfg = SynCfg { paren_16: 1, ..SynCfg::default() };
    let context = ["c0", "k"];
    let mut g = SynGen::new(ch, cfg, &context);
    let mut s = g.term(fuel).flatten();
    let mut excluded = 0;
    exclude_known_shape(&mut s, &|c, n| mentions(c, n), ch, &mut excluded);
    if excluded > 0 {
        ctx.class_n("excluded by construction: implicit pi with unused parameter made explicit (recorded finding)", excluded as u64);
    }
    // A sixth of the programs with a group of two or more definitions have the tail of one such
    // group in parentheses (`x = a; (y = b; body)`): whatever term the parser makes of that, its
    // printed form has to read back as the same term.
    if ch.chance(1, 6) {
        if let Some(t) = crate::gens::mutate::paren_group_tail(&s, ch) {
            s = t;
            ctx.class("source with the tail of a group in parentheses");
        }
    }
    let toks = sast::print_tokens(&s);
    let (text, ranges) = tok::render_plain(&toks);
    let gt = tok::to_gram(&text, &toks, &ranges);
    let parsed = catch(|| crate::parser::parse(None, &text, &gt, &context))
        .map_err(|p| Failure::new(format!("parse panicked: {p}"), text.clone()).with_sig("panic"))?;
    let term = match parsed {
        Ok(t) => t,
        Err(_) => {
            ctx.class("source rejected by the parser (definition order); skipped");
            return Ok(());
        }
    };
    roundtrip(&term, &context, &text)?;
    let mut pairs = vec![];
    position_pairs(&term, &mut pairs);
    if !ctx.frozen() {
        for p in &pairs {
            ctx.class(&format!("pair: {p}"));
        }
    }
    let d = crate::dterm::D::from_gram(&term);
    let bare_nonatomic = pairs.iter().any(|p| {
        let bare = p.starts_with("lambda annotation") || p.starts_with("lambda body") || p.starts_with("if ") || p.contains("codomain") || p.starts_with("let body") || p.contains("dependent) domain");
        let atomic = ["variable", "type", "int", "bool", "true", "false", "literal", "hole"].iter().any(|a| p.ends_with(&format!("<- {a}")));
        bare && !atomic
    });
    if depth(&d) >= 3 && bare_nonatomic {
        ctx.nontrivial(&text);
    }
    Ok(())
}

fn depth(d: &crate::dterm::D) -> usize {
    use crate::dterm::D;
    match d {
        D::Lam(_, a, b) | D::Pi(_, a, b) | D::App(a, b) | D::Bin(_, a, b) => 1 + depth(a).max(depth(b)),
        D::Let(defs, body) => 1 + defs.iter().map(|(a, x)| depth(a).max(depth(x))).max().unwrap_or(0).max(depth(body)),
        D::Neg(a) => 1 + depth(a),
        D::If(a, b, c) => 1 + depth(a).max(depth(b)).max(depth(c)),
        _ => 1,
    }
}

/// What `gram check` displays: the *elaborated* term (holes filled by inference) must read back as
/// the same term.
fn elaborated_case(ctx: &Ctx, ch: &mut Ch) -> Outcome {
    use crate::gens::prog::{self, ProgCfg};
    let cfg = ProgCfg { forward_aliases: true, ..ProgCfg::default() };
    let kind = ch.pick(3);
    let fuel = 2 + ch.pick(4);
    let Some(p) = prog::gen_program(ch, cfg, kind, fuel) else { return Ok(()) };
    let s = if ch.chance(1, 2) {
        let mut erased = 0;
        prog::erase(&p.s, ch, &mut erased).flatten()
    } else {
        p.s.clone()
    };
    let text = sast::print_plain(&s);
    if text.len() > 3000 {
        return Ok(());
    }
    ctx.announce(false, None, &text);
    let r = crate::pipe::with_front(&text, |front| -> Result<Option<bool>, Failure> {
        let crate::pipe::Front::Accepted { elaborated, ty, .. } = front else { return Ok(None) };
        for (what, term) in [("elaborated term", elaborated), ("elaborated type", ty)] {
            let printed = term.to_string();
            let input = format!("source `{text}`: the {what} prints as `{printed}`");
            let sig = has_implicit_unused_pi(term);
            // The other recorded finding: the structure is printable, only the *names* are off
            // (an inferred annotation keeps the name its variable had where the solution came from).
            let names_only = {
                let d = crate::dterm::D::from_gram(term);
                crate::checks::c03::closed(&d) && {
                    let canonical = sast::print_plain(&crate::checks::c03::d_to_s(&d, 0).flatten());
                    catch(|| {
                        crate::tokenizer::tokenize(None, &canonical).ok().and_then(|toks| crate::parser::parse(None, &canonical, &toks, &[]).ok().map(|t| crate::dterm::D::from_gram(&t) == d))
                    })
                    .ok()
                    .flatten()
                        == Some(true)
                }
            };
            let tag = |f: Failure| if sig { f.with_sig(SIG_IMPLICIT_UNUSED_PI) } else if names_only { f.with_sig(SIG_FOREIGN_NAMES) } else { f };
            let back = catch(|| {
                let toks = crate::tokenizer::tokenize(None, &printed).map_err(|e| format!("does not tokenize: {}", e[0].message.lines().next().unwrap_or("")))?;
                let parsed = crate::parser::parse(None, &printed, &toks, &[]).map_err(|e| format!("does not parse: {}", e[0].message.lines().next().unwrap_or("")))?;
                Ok::<_, String>((crate::dterm::D::from_gram(&parsed), {
                    let mut n = vec![];
                    crate::bridge::collect_names(&parsed, &mut n);
                    n
                }))
            })
            .map_err(|p| Failure::new(format!("panic: {p}"), input.clone()).with_sig("panic"))?;
            match back {
                Err(why) => {
                    // The recorded finding about a group in the body of a group, seen from its other
                    // side: merged on reading back, the inner group's names clash with names that
                    // are bound again further in (the argument was substituted at several places).
                    let orig = crate::dterm::D::from_gram(term);
                    let f = Failure::new(format!("the displayed {what} {why}"), input);
                    return Err(if why.contains("already exists") && orig != orig.flatten_body_groups() { f.with_sig(SIG_BODY_GROUP) } else { tag(f) });
                }
                Ok((d, _names)) => {
                    let orig = crate::dterm::D::from_gram(term);
                    if d != orig && d == orig.flatten_body_groups() {
                        // The other recorded finding: substitution during checking put a group into
                        // the *body* of a group (the parser never builds that); it is displayed
                        // bare and read back as one merged group.
                        return Err(Failure::new(format!("the displayed {what} has a group in the body of a group, which reads back merged into one group: `{}` vs `{}`", d.show(), orig.show()), input).with_sig(SIG_BODY_GROUP));
                    }
                    if d != crate::dterm::D::from_gram(term) {
                        return Err(tag(Failure::new(format!("the displayed {what} reads back as a different term: `{}` vs `{}`", d.show(), crate::dterm::D::from_gram(term).show()), input)));
                    }
                }
            }
        }
        Ok(Some(crate::dterm::D::from_gram(elaborated).size() >= 6))
    })
    .map_err(|p| Failure::new(p, text.clone()).with_sig("panic"))?;
    match r? {
        None => ctx.class("elaborated: program not accepted (skipped)"),
        Some(big) => {
            ctx.class("elaborated term and type read back as the same terms");
            if big {
                ctx.nontrivial(&format!("elaborated: {text}"));
            }
        }
    }
    Ok(())
}

pub const SIG_BODY_GROUP: &str = "group-in-the-body-of-a-group-is-displayed-merged";

const REGRESSIONS: [&str; 6] = [
    "(x : (y = int; y)) => x",
    "{x : (y = int; y)} => x",
    "(x : (y = int; y)) -> x",
    "{a : int} -> int",
    "(f : int -> int) => f (f 1) (2)",
    "a = 1; - (a * - a) - (a - (a - a))",
];

pub fn def(tier: Tier) -> CheckDef {
    let rounds = tier.pick(40, 400);
    CheckDef {
        id: "C16",
        level: "exploration",
        rule: "proptest-generated source programs with every term former in every operand position of every other (redundant parentheses, holes, omitted annotations, implicit binders, used and unused pi parameters), parsed by gram; oracle = to_string() of the parser's output, tokenized and parsed in the same scope, must be structurally identical (constructors, de Bruijn indices, implicit flags, literals, definition order, hole <-> hole, names except unused pi parameters); likewise the elaborated term and type that `gram check` displays for accepted type-directed generated programs (holes filled by inference) must read back, in the empty scope, as structurally the same terms; the evidence lists every (parent position <- child form) pair met with its count; non-trivial = term depth >= 3 with a non-atomic child in a position printed without parentheses; distinct by source text",
        assumptions: vec![
            "an implicit pi whose parameter is unused prints as `{A} -> B` (recorded finding; pinned by a unit test of the repository): such pis are made explicit by the generator except in a 1/40 share of cases, and counted",
        ],
        idle_limit_s: 300,
        needs_cli: false,
        fuzz: None,
        parts: vec![
            Part {
                name: "regressions",
                rounds: 1,
                run: Box::new(|ctx, _| {
                    if ctx.shard != 0 {
                        return;
                    }
                    for src in REGRESSIONS {
                        ctx.evaluated(1);
                        let r = catch(|| {
                            let toks = crate::tokenizer::tokenize(None, src).expect("regression source tokenizes");
                            let term = crate::parser::parse(None, src, &toks, &[]).expect("regression source parses");
                            roundtrip(&term, &[], src)
                        });
                        match r {
                            Ok(o) => {
                                if o.is_ok() {
                                    ctx.nontrivial(src);
                                }
                                ctx.settle(o);
                            }
                            Err(p) => ctx.settle(Err(Failure::new(format!("panic: {p}"), src))),
                        }
                    }
                }),
                replay: None,
            },
            Part {
                name: "elaborated",
                rounds: tier.pick(10, 100),
                run: Box::new(|ctx, r| ctx.prop("elaborated", r, 400, 600, elaborated_case)),
                replay: Some(Box::new(|ctx, inp| match inp {
                    ReplayInput::Choices(c) => elaborated_case(ctx, &mut Ch::new(c)),
                    _ => Err(Failure::new("this part replays from choices", "")),
                })),
            },
            Part {
                name: "parsed",
                rounds,
                run: Box::new(|ctx, r| ctx.prop("parsed", r, 1000, 600, parsed_case)),
                replay: Some(Box::new(|ctx, inp| match inp {
                    ReplayInput::Choices(c) => parsed_case(ctx, &mut Ch::new(c)),
                    _ => Err(Failure::new("this part replays from choices", "")),
                })),
            },
        ],
    }
}
