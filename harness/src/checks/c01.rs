//! C01 — Accepted programs never get stuck at run time (progress).

use crate::checks::c03::{closed, d_to_s, enum_leaves};
use crate::dterm::Enumerator;
use crate::gens::mutate;
use crate::gens::prog::{self, ProgCfg};
use crate::pipe::{self, Eval, Front, StuckKind};
use crate::runner::{CheckDef, Ctx, Failure, Outcome, Part, ReplayInput, Tier};
use crate::sast::{self, S};
use crate::util::Ch;

pub const SIG_LATER_VALUE: &str = "non-value-definition-depends-on-later-value-definition";
pub const SIG_HOLE_IDENTITY: &str = "hole-identity-lost-under-substitution";
pub const SIG_UNFILLED_HOLE: &str = "unresolved-hole-reaches-the-evaluator";

#[derive(Debug, Clone, Copy, PartialEq, Eq)]
pub enum Run {
    Rejected,
    Value(u64),
    Running,
    DivisionByZero(u64),
}

/// Progress oracle for one source text.
pub fn check_text(ctx: &Ctx, text: &str, budget: u64) -> Result<Run, Failure> {
    ctx.announce(false, None, text);
    let r = pipe::with_front(text, |front| -> Result<Run, Failure> {
        let Front::Accepted { elaborated, hole_copies, .. } = front else {
            return Ok(Run::Rejected);
        };
        match pipe::run_steps(elaborated, budget).map_err(|p| Failure::new(p, text).with_sig("panic"))? {
            Eval::Value(_, n) => Ok(Run::Value(n)),
            Eval::Running(_) => Ok(Run::Running),
            Eval::Stuck(t, n) => {
                let kind = pipe::classify_stuck(&t);
                let f = Failure::new(
                    format!("accepted by the front end, but evaluation is stuck after {n} steps — {kind:?} — at `{}`", crate::util::truncate(&t.to_string(), 400)),
                    text,
                );
                match kind {
                    StuckKind::DivisionByZero => Ok(Run::DivisionByZero(n)),
                    StuckKind::GroupVariable { definition_is_value: true, .. } => Err(f.with_sig(SIG_LATER_VALUE)),
                    StuckKind::UnfilledHole => Err(f.with_sig(SIG_UNFILLED_HOLE)),
                    StuckKind::NonFunctionCall | StuckKind::WrongKindOperand | StuckKind::WrongKindCondition if *hole_copies > 0 => Err(f.with_sig(SIG_HOLE_IDENTITY)),
                    _ => Err(f),
                }
            }
        }
    });
    match r {
        Err(p) => Err(Failure::new(p, text).with_sig("panic")),
        Ok(v) => v,
    }
}

fn record(ctx: &Ctx, r: Run, text: &str, class: &str, features_interesting: bool) {
    match r {
        Run::Rejected => ctx.class(&format!("{class}: rejected by the front end")),
        Run::Value(n) => {
            ctx.class(&format!("{class}: accepted, evaluates to a value"));
            if n >= 3 && features_interesting {
                ctx.nontrivial(text);
            }
        }
        Run::Running => ctx.class(&format!("{class}: accepted, still running at the step budget")),
        Run::DivisionByZero(_) => {
            ctx.class(&format!("{class}: accepted, stops at a division by zero"));
            if features_interesting {
                ctx.nontrivial(text);
            }
        }
    }
}

fn generated_case(ctx: &Ctx, ch: &mut Ch) -> Outcome {
    let cfg = ProgCfg { forward_aliases: false, ..ProgCfg::default() };
    let kind = [0, 0, 1, 2, 2][ch.pick(5)];
    let fuel = 2 + ch.pick(5);
    let Some(p) = prog::gen_program(ch, cfg, kind, fuel) else {
        ctx.class("generator: gave up");
        return Ok(());
    };
    if p.text.len() > 4000 {
        ctx.class("skipped: longer than 4000 bytes");
        return Ok(());
    }
    let interesting = p.features.iter().any(|f| {
        ["group of >= 2 definitions", "recursive definition", "mutually recursive definitions", "nested group", "group nested in a definition", "higher-order call", "type-level computation in an annotation", "type-level conditional", "polymorphic / dependent definition"].contains(f)
    });
    let budget = crate::checks::c02::step_budget(ctx.tier);
    let pick = ch.pick(10);
    let (s, class): (S, &str) = match if prog::perturbation_safe(&p) || pick < 7 { pick } else { 0 } {
        0..=3 => (p.s.clone(), "plain"),
        4..=6 => {
            let mut erased = 0;
            (prog::erase(&p.s, ch, &mut erased), "erased")
        }
        _ => {
            // Type-breaking mutants: most are rejected; the accepted ones are the interesting ones.
            let (t, _) = mutate::perturb(&p.s, ch);
            (t, "perturbed")
        }
    };
    let text = sast::print_plain(&s.flatten());
    let r = check_text(ctx, &text, budget)?;
    record(ctx, r, &text, class, interesting || class != "plain");
    Ok(())
}

/// The risky-order class: groups in which a non-value definition mentions later or nested
/// definitions, around the boundary of what the definition-order check accepts. All definitions are
/// of type int or int -> int so that the type checker does not get in the way.
fn risky_case(ctx: &Ctx, ch: &mut Ch) -> Outcome {
    fn group(ch: &mut Ch, depth: usize, outer: &[(String, bool)], counter: &mut usize) -> String {
        let n = 2 + ch.pick(3);
        let names: Vec<(String, bool)> = (0..n)
            .map(|_| {
                *counter += 1;
                (format!("{}{}", ["d", "é", "k"][*counter % 3], *counter), ch.chance(1, 3))
            })
            .collect();
        // Everything in scope: outer names and all names of this group (later ones included).
        let mut visible: Vec<(String, bool)> = outer.to_vec();
        visible.extend(names.iter().cloned());
        let int_atom = |ch: &mut Ch, visible: &[(String, bool)]| -> String {
            let ints: Vec<&(String, bool)> = visible.iter().filter(|(_, is_fn)| !is_fn).collect();
            let fns: Vec<&(String, bool)> = visible.iter().filter(|(_, is_fn)| *is_fn).collect();
            match ch.pick(4) {
                0 => ch.pick(10).to_string(),
                1 if !fns.is_empty() => format!("{} {}", fns[ch.pick(fns.len())].0, ch.pick(5)),
                _ if !ints.is_empty() => ints[ch.pick(ints.len())].0.clone(),
                _ => "1".to_owned(),
            }
        };
        let mut s = String::new();
        for (name, is_fn) in &names {
            let rhs = if *is_fn {
                *counter += 1;
                let p = format!("n{}", *counter);
                let mut vis2 = visible.clone();
                vis2.push((p.clone(), false));
                format!("({p} : int) => {} + {}", int_atom(ch, &vis2), int_atom(ch, &vis2))
            } else {
                match ch.pick(5) {
                    0 => ch.pick(10).to_string(),
                    1 if depth > 0 => format!("({})", group(ch, depth - 1, &visible, counter)),
                    2 if depth > 0 => {
                        *counter += 1;
                        let p = format!("n{}", *counter);
                        let mut vis2 = visible.clone();
                        vis2.push((p.clone(), false));
                        format!("(({p} : int) => {}) {}", group(ch, depth - 1, &vis2, counter), ch.pick(4))
                    }
                    _ => format!("{} + {}", int_atom(ch, &visible), int_atom(ch, &visible)),
                }
            };
            s.push_str(&format!("{name} = {rhs}; "));
        }
        s.push_str(&int_atom(ch, &visible));
        s
    }
    let mut counter = 0;
    let depth = ch.pick(3);
    let text = group(ch, depth, &[], &mut counter);
    let budget = crate::checks::c02::step_budget(ctx.tier);
    let r = check_text(ctx, &text, budget)?;
    record(ctx, r, &text, "risky definition order", true);
    Ok(())
}

fn enumerate_part(ctx: &Ctx, max_size: usize, budget: u64) {
    let mut e = Enumerator::new(enum_leaves());
    e.upto(max_size);
    let mut idx = 0u64;
    let mut total = 0u64;
    let mut accepted = 0u64;
    for n in 1..=max_size {
        for d in &e.by_size[n] {
            if !closed(d) {
                continue;
            }
            idx += 1;
            if idx % u64::from(ctx.nshards) != u64::from(ctx.shard) {
                continue;
            }
            let text = sast::print_plain(&d_to_s(d, 0).flatten());
            total += 1;
            match check_text(ctx, &text, budget) {
                Ok(Run::Rejected) => {}
                Ok(Run::Value(steps)) => {
                    accepted += 1;
                    if steps >= 1 {
                        ctx.nontrivial_enumerated(|| text.clone());
                    }
                }
                Ok(_) => accepted += 1,
                Err(f) => {
                    ctx.settle(Err(f));
                    if ctx.peek_violations() >= 8 {
                        return;
                    }
                }
            }
        }
    }
    ctx.evaluated(total);
    ctx.class_n("enumerated closed programs", total);
    ctx.class_n("enumerated closed programs accepted and run", accepted);
    ctx.exhaustive("enum-small");
    ctx.note(&format!("enum-small: every closed explicit program of size <= {max_size} over the leaves type, int, 1, true and two variables"));
}

const REGRESSIONS: [&str; 7] = [
    "x = (y = z + 1; z = 1 + 2; y); x",
    "x = y + 1; y = 2; x",
    "((f : int -> _) => f 1 + 1) ((x : int) => true)",
    "_",
    "if _ then 1 else 2",
    "f = (n : int) => g n; x = f 1; g = (n : int) => n; x",
    "f = (n : int) => (y = z + n; z = 2; y); f 1",
];

pub fn def(tier: Tier) -> CheckDef {
    let rounds = tier.pick(10, 100);
    let max_size = tier.pick(5, 6);
    let budget = crate::checks::c02::step_budget(tier);
    CheckDef {
        id: "C01",
        level: "exploration",
        rule: "accepted programs from (a) type-directed generation: plain, annotation-erased / hole-inserted, and type-breaking mutants (most mutants are rejected; the accepted ones are run), (b) a risky-order class: groups of 2-4 int / int -> int definitions in which non-value definitions freely mention earlier, later and nested definitions, nested in definitions and in function bodies to depth 3, (c) every closed explicit program up to size 5/6 over a small vocabulary (exhaustive), (d) /repo/examples and the inputs quoted in the property, (e) exhaustively, an identity function annotated `T1 -> T2` for every pair of small type expressions (conditionals with every comparison operator, type-level functions, definition groups of different lengths), applied at constants and its result used the way T2 allows there; oracle = gram's own `step` relation under a budget must end in a value, still be running, or be blocked exactly at `literal / 0`; a stuck term is classified by descending the call-by-value evaluation contexts to the blocking redex; non-trivial = accepted, >= 3 steps (or a division by zero) and a group, recursion, nesting, higher-order call, hole / erased annotation or type-level computation; distinct by text",
        assumptions: vec![
            "'keeps running' is observed as 'no value after 20 000 (quick) / 60 000 (thorough) steps'",
            "three recorded findings are matched by signature on the blocking redex: a group variable whose definition is a syntactic value (later value definition), an unresolved hole, and a wrong-kind redex in a program during whose checking `open` copied an unresolved hole (hook counter)",
        ],
        idle_limit_s: 60,
        needs_cli: false,
        fuzz: None,
        parts: vec![
            Part {
                name: "regressions",
                rounds: 1,
                run: Box::new(move |ctx, _| {
                    if ctx.shard != 0 {
                        return;
                    }
                    let mut texts: Vec<String> = REGRESSIONS.iter().map(|s| (*s).to_owned()).collect();
                    if let Ok(dir) = std::fs::read_dir(format!("{}/examples", crate::GRAM_REPO)) {
                        let mut files: Vec<_> = dir.filter_map(Result::ok).map(|e| e.path()).collect();
                        files.sort();
                        for f in files {
                            // The two examples that are meant to diverge in the checker are skipped.
                            let name = f.file_name().unwrap().to_string_lossy().into_owned();
                            if name.contains("girard") || name.contains("infinite_type") {
                                continue;
                            }
                            if let Ok(t) = std::fs::read_to_string(&f) {
                                texts.push(t);
                            }
                        }
                    }
                    for t in texts {
                        ctx.evaluated(1);
                        match check_text(ctx, &t, budget) {
                            Ok(r) => record(ctx, r, &t, "regression / example", true),
                            Err(f) => ctx.settle(Err(f)),
                        }
                    }
                }),
                replay: None,
            },
            Part {
                name: "generated",
                rounds,
                run: Box::new(|ctx, r| ctx.prop("generated", r, 400, 600, generated_case)),
                replay: Some(Box::new(|ctx, inp| match inp {
                    ReplayInput::Choices(c) => generated_case(ctx, &mut Ch::new(c)),
                    _ => Err(Failure::new("this part replays from choices", "")),
                })),
            },
            Part {
                name: "risky-order",
                rounds: tier.pick(2, 30),
                run: Box::new(|ctx, r| ctx.prop("risky-order", r, 400, 300, risky_case)),
                replay: Some(Box::new(|ctx, inp| match inp {
                    ReplayInput::Choices(c) => risky_case(ctx, &mut Ch::new(c)),
                    _ => Err(Failure::new("this part replays from choices", "")),
                })),
            },
            Part {
                name: "coercions-used",
                rounds: 1,
                run: Box::new(|ctx, _| {
                    // C04's exhaustive family of identity functions annotated `T1 -> T2`: whenever
                    // gram accepts one, its result is *used* the way T2 (at the constants) allows.
                    use crate::checks::c04::{Base, for_each_coercion};
                    let (total, ntypes) = for_each_coercion(ctx.shard, ctx.nshards, |decls, call, t2| {
                        let text = match t2 {
                            Base::Int => format!("{decls}({call}) + 1"),
                            Base::Bool => format!("{decls}if {call} then 1 else 2"),
                            Base::Fun => format!("{decls}({call}) 3 + 1"),
                        };
                        match check_text(ctx, &text, 20_000) {
                            Ok(r) => record(ctx, r, &text, "coercion used", true),
                            Err(f) => {
                                ctx.settle(Err(f));
                                if ctx.peek_violations() >= 6 {
                                    return false;
                                }
                            }
                        }
                        true
                    });
                    ctx.evaluated(total);
                    ctx.exhaustive("coercions-used");
                    ctx.note(&format!("coercions-used: an identity function annotated `(b : bool) -> (x : int) -> T1 -> T2` for every pair of {ntypes} small type expressions, applied at constants, its result then used in arithmetic / as a condition / as a function according to T2 at the constants"));
                }),
                replay: None,
            },
            Part {
                name: "enum-small",
                rounds: 1,
                run: Box::new(move |ctx, _| enumerate_part(ctx, max_size, budget)),
                replay: None,
            },
        ],
    }
}
