//! C02 — Running a program yields the value the language semantics prescribes.

use crate::gens::prog::{self, ProgCfg};
use crate::pipe::{self, Eval, Front, StuckKind};
use crate::runner::{CheckDef, Ctx, Failure, Outcome, Part, ReplayInput, Tier};
use crate::sast::{self, S};
use crate::typed::{self, RefEval, RefType, RefValue};
use crate::util::Ch;

pub fn step_budget(tier: Tier) -> u64 {
    tier.pick(20_000, 60_000)
}

/// Compare gram's evaluation of an accepted program with the reference interpreter.
pub fn check_program(ctx: &Ctx, s: &S, text: &str, features: &std::collections::BTreeSet<&'static str>) -> Outcome {
    let (_tc, k, verdict) = typed::ref_infer(s, true);
    let Some(k) = k else {
        ctx.class("generator: program is not well scoped (discarded)");
        return Ok(());
    };
    if !matches!(verdict, RefType::Ok(_)) {
        ctx.class("generator: program not accepted by the reference checker (discarded)");
        return Ok(());
    }
    let (want, stats) = typed::ref_eval(&k, 3_000_000);
    match &want {
        RefEval::Fuel => {
            ctx.inconclusive("reference interpreter ran out of fuel");
            return Ok(());
        }
        RefEval::Stuck(why) => {
            // Outside this property's domain (a definition used before it is evaluated); this is
            // C01's territory and the generator's safe order should prevent it.
            ctx.class(&format!("outside the domain: the reference interpreter is stuck ({why})"));
            return Ok(());
        }
        _ => {}
    }
    ctx.announce(true, None, text);
    let budget = step_budget(ctx.tier);
    let r = pipe::with_front(text, |front| -> Result<Option<&'static str>, Failure> {
        let Front::Accepted { elaborated, .. } = front else {
            return Ok(Some("rejected by gram (C05's concern, not C02's)"));
        };
        let ev = pipe::run_steps(elaborated, budget).map_err(|p| Failure::new(p, text).with_sig("panic"))?;
        match (&want, ev) {
            (_, Eval::Running(_)) => Ok(Some("inconclusive: gram still running at the step budget")),
            (RefEval::Value(v), Eval::Value(t, _)) => {
                let got = typed::gram_value(&t);
                if got.as_ref() == Some(v) {
                    Ok(None)
                } else {
                    Err(Failure::new(format!("the semantics prescribes {v:?}, gram evaluates to `{t}`"), text))
                }
            }
            (RefEval::Value(v), Eval::Stuck(t, _)) => Err(Failure::new(
                format!("the semantics prescribes {v:?}, gram is stuck ({:?}) at `{}`", pipe::classify_stuck(&t), crate::util::truncate(&t.to_string(), 300)),
                text,
            )),
            (RefEval::DivisionByZero, Eval::Stuck(t, _)) => {
                if pipe::classify_stuck(&t) == StuckKind::DivisionByZero {
                    Ok(None)
                } else {
                    Err(Failure::new(format!("the semantics prescribes a division by zero, gram is stuck for another reason ({:?}) at `{}`", pipe::classify_stuck(&t), crate::util::truncate(&t.to_string(), 300)), text))
                }
            }
            (RefEval::DivisionByZero, Eval::Value(t, _)) => Err(Failure::new(format!("the semantics prescribes a division by zero (evaluation must stop there), gram produced `{t}`"), text)),
            (RefEval::Fuel | RefEval::Stuck(_), _) => unreachable!(),
        }
    });
    match r {
        Err(p) => Err(Failure::new(p, text).with_sig("panic")),
        Ok(Err(f)) => Err(f),
        Ok(Ok(Some(class))) => {
            if class.starts_with("inconclusive") {
                ctx.inconclusive(class);
            } else {
                ctx.class(class);
            }
            Ok(())
        }
        Ok(Ok(None)) => {
            ctx.class(match &want {
                RefEval::Value(RefValue::Int(_)) => "agrees: integer result",
                RefEval::Value(RefValue::Bool(_)) => "agrees: boolean result",
                RefEval::Value(_) => "agrees: function / type result (kind compared)",
                _ => "agrees: stops at a division by zero",
            });
            if let RefEval::Value(RefValue::Int(n)) = &want {
                if n.bits() > 64 {
                    ctx.class("result beyond 64 bits");
                }
            }
            if stats.max_depth >= 40 {
                ctx.class("deep evaluation (reference recursion depth >= 40)");
            }
            let has_call_or_group = features.iter().any(|f| {
                ["call of something in scope", "immediately applied lambda", "group of >= 2 definitions", "recursive definition", "mutually recursive definitions", "higher-order call"].contains(f)
            }) || matches!(s, S::Let { .. });
            if stats.steps >= 5 && has_call_or_group {
                ctx.nontrivial(text);
            }
            Ok(())
        }
    }
}

fn generated_case(ctx: &Ctx, ch: &mut Ch) -> Outcome {
    let cfg = ProgCfg { forward_aliases: false, ..ProgCfg::default() };
    let kind = [0, 0, 0, 1, 1, 2][ch.pick(6)];
    let fuel = 2 + ch.pick(5);
    let Some(p) = prog::gen_program(ch, cfg, kind, fuel) else {
        ctx.class("generator: gave up");
        return Ok(());
    };
    if p.text.len() > 5000 {
        ctx.class("skipped: longer than 5000 bytes");
        return Ok(());
    }
    // Apply recursive definitions to something: wrap the program so that calls happen.
    check_program(ctx, &p.s, &p.text, &p.features)
}

/// Hand-written shapes the property statement names explicitly, with generated operands.
fn directed_case(ctx: &Ctx, ch: &mut Ch) -> Outcome {
    use crate::gens::prog::boundary_literal;
    let lit = |ch: &mut Ch| {
        let n = boundary_literal(ch);
        if ch.chance(1, 3) { format!("(0 - {n})") } else { n.to_string() }
    };
    let text = match ch.pick(9) {
        0 => format!("{} {} {}", lit(ch), ["+", "-", "*", "/"][ch.pick(4)], lit(ch)),
        1 => format!("{} {} {}", lit(ch), ["<", "<=", "==", ">", ">="][ch.pick(5)], lit(ch)),
        2 => {
            let a = lit(ch);
            format!("{a} {} {a}", ["<", "<=", "==", ">", ">="][ch.pick(5)])
        }
        3 => format!("if {} then {} else 1 / 0", ["true", "1 < 2"][ch.pick(2)], lit(ch)),
        4 => format!("if {} then 1 / 0 else {}", ["false", "2 < 1"][ch.pick(2)], lit(ch)),
        5 => format!("((x : int) => 7) ({} / 0)", lit(ch)),
        6 => format!("a : int = {}; b : int = {} / 0; a", lit(ch), lit(ch)),
        7 => {
            let n = ch.pick(if ctx.tier == Tier::Quick { 300 } else { 2000 });
            format!("f : (int -> int) = (n : int) => if n <= 0 then 0 else 1 + f (n - 1); f {n}")
        }
        _ => {
            let n = ch.pick(60);
            format!("ev : (int -> bool) = (n : int) => if n <= 0 then true else od (n - 1); od : (int -> bool) = (n : int) => if n <= 0 then false else ev (n - 1); ev {n}")
        }
    };
    let toks = crate::refs::lex::expected_stream(&text).expect("directed text lexes");
    let s = crate::checks::c07::with_grammar(|g| crate::refs::chart::parse_tokens(g, &toks).1).expect("directed text is a sentence").flatten().unparen();
    let mut feats = std::collections::BTreeSet::new();
    feats.insert("call of something in scope");
    check_program(ctx, &s, &text, &feats)
}

/// Black-box cross-check: `gram run FILE` prints exactly the literal the reference prescribes.
fn cli_case(ctx: &Ctx, ch: &mut Ch, scratch: &crate::cli::Scratch) -> Outcome {
    let cfg = ProgCfg { forward_aliases: false, ..ProgCfg::default() };
    let kind = ch.pick(2);
    let fuel = 2 + ch.pick(4);
    let Some(p) = prog::gen_program(ch, cfg, kind, fuel) else { return Ok(()) };
    let (_tc, k, verdict) = typed::ref_infer(&p.s, true);
    let (Some(k), RefType::Ok(_)) = (k, verdict) else { return Ok(()) };
    let (want, _) = typed::ref_eval(&k, 1_000_000);
    let expected = match &want {
        RefEval::Value(RefValue::Int(n)) => n.to_string(),
        RefEval::Value(RefValue::Bool(b)) => b.to_string(),
        RefEval::DivisionByZero => String::new(),
        _ => return Ok(()),
    };
    scratch.write("p.g", p.text.as_bytes());
    let run = crate::cli::run("run", &scratch.dir, "p.g").map_err(|e| Failure::new(e, "cli"))?;
    if run.status == crate::cli::TIMEOUT_STATUS || run.status >= 1000 {
        ctx.inconclusive("cli: run timed out or was ended by a signal");
        return Ok(());
    }
    let out = String::from_utf8_lossy(&run.stdout).into_owned();
    let err = String::from_utf8_lossy(&run.stderr).into_owned();
    match &want {
        RefEval::DivisionByZero => {
            if run.status != 1 || !out.is_empty() || err.trim().is_empty() {
                return Err(Failure::new(format!("the semantics prescribes a division by zero; `gram run` exited {} with stdout {out:?} stderr {err:?}", run.status), p.text.clone()));
            }
            ctx.class("cli: `gram run` stops at the division by zero");
        }
        _ => {
            // The printed value, without the quoting the CLI puts around code.
            let shown = out.trim().trim_matches('`').to_owned();
            if run.status != 0 || shown != expected {
                return Err(Failure::new(format!("the semantics prescribes {expected:?}; `gram run` exited {} and printed {out:?} (stderr {err:?})", run.status), p.text.clone()));
            }
            ctx.class("cli: `gram run` prints the prescribed literal");
        }
    }
    ctx.nontrivial(&p.text);
    Ok(())
}

pub fn def(tier: Tier) -> CheckDef {
    let rounds = tier.pick(30, 300);
    CheckDef {
        id: "C02",
        level: "exploration",
        rule: "proptest-driven type-directed generation of closed well-typed programs (results: int ~50%, bool ~33%, functions / types the rest) with boundary integers (0, 1, around 2^31, 2^63, 2^64, 10^40), all nine operators, every sign combination for division, equal / adjacent comparison operands, conditionals, higher-order and immediately applied functions, groups of 1-5 definitions, recursive and mutually recursive functions, plus directed shapes (poisoned branches, division by zero in an ignored argument and in an unused definition, recursion depth up to 300 / 2000); oracle = an independent environment-based call-by-value interpreter (R-cbv) on the source program versus gram's `step` loop on the elaborated term: same literal, same kind for functions / types, and 'stops at literal / 0' on both sides; fuel exhaustion on either side is inconclusive; a sample goes through `gram run` and its printed value / `is stuck!` exit is compared with the reference; non-trivial = the reference takes >= 5 evaluation steps and the program has a call or a group; distinct by program text",
        assumptions: vec![
            "call-by-value: applicand, then argument, then the call; operands left to right; definitions of a group in order; only the chosen branch of a conditional",
            "division truncates toward zero; division by zero stops evaluation",
        ],
        idle_limit_s: 120,
        needs_cli: true,
        fuzz: None,
        parts: vec![
            Part {
                name: "generated",
                rounds,
                run: Box::new(|ctx, r| ctx.prop("generated", r, 400, 600, generated_case)),
                replay: Some(Box::new(|ctx, inp| match inp {
                    ReplayInput::Choices(c) => generated_case(ctx, &mut Ch::new(c)),
                    _ => Err(Failure::new("this part replays from choices", "")),
                })),
            },
            Part {
                name: "cli",
                rounds: tier.pick(1, 8),
                run: Box::new(|ctx, r| {
                    let scratch = crate::cli::Scratch::new(&format!("c02-{}", ctx.shard));
                    ctx.prop("cli", r, 60, 500, |ctx, ch| cli_case(ctx, ch, &scratch));
                }),
                replay: Some(Box::new(|ctx, inp| match inp {
                    ReplayInput::Choices(c) => {
                        let scratch = crate::cli::Scratch::new("c02-replay");
                        cli_case(ctx, &mut Ch::new(c), &scratch)
                    }
                    _ => Err(Failure::new("this part replays from choices", "")),
                })),
            },
            Part {
                name: "directed",
                rounds: tier.pick(6, 60),
                run: Box::new(|ctx, r| ctx.prop("directed", r, 300, 40, directed_case)),
                replay: Some(Box::new(|ctx, inp| match inp {
                    ReplayInput::Choices(c) => directed_case(ctx, &mut Ch::new(c)),
                    _ => Err(Failure::new("this part replays from choices", "")),
                })),
            },
        ],
    }
}
