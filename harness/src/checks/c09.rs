//! C09 — Tokens partition the source text exactly.

use crate::refs::lex::{self, Lexed, Tri};
use crate::runner::{Ctx, CheckDef, Failure, Outcome, Part, ReplayInput, catch};
use crate::tok::{self, K, KEYWORDS, Tok};
use crate::token::{TerminatorType, Variant};
use crate::util::Ch;
use unicode_segmentation::UnicodeSegmentation;

pub const SIG_COMMENT: &str = "comment-swallows-line-break";

/// The recorded comment defect: a comment that is empty, or whose last character is longer than
/// one byte, directly followed by a line break.
pub fn comment_signature(text: &str, lexed: &Lexed) -> bool {
    lexed.comments.iter().any(|(s, e)| {
        text[*e..].starts_with('\n')
            && (*e == *s + 1 || text[*s..*e].chars().next_back().is_some_and(|c| c.len_utf8() > 1))
    })
}

pub struct Info {
    pub tokens: usize,
    pub nontrivial: bool,
    pub class: &'static str,
}

fn fail(text: &str, lexed: &Lexed, msg: String) -> Failure {
    let f = Failure::new(msg, format!("{text:?}"));
    if comment_signature(text, lexed) { f.with_sig(SIG_COMMENT) } else { f }
}

/// The full oracle for one text.
pub fn check_text(text: &str) -> Result<Info, Failure> {
    let lexed = lex::lex(text);
    let got = match catch(|| crate::tokenizer::tokenize(None, text)) {
        Ok(g) => g,
        Err(p) => return Err(Failure::new(format!("tokenize panicked: {p}"), format!("{text:?}")).with_sig("panic")),
    };
    let multibyte = text.chars().any(|c| c.len_utf8() > 1);
    if !lexed.unexpected.is_empty() {
        let errors = match got {
            Ok(_) => {
                return Err(fail(text, &lexed, format!(
                    "text has unexpected symbols at bytes {:?} but tokenize returned Ok",
                    lexed.unexpected
                )));
            }
            Err(e) => e,
        };
        if errors.is_empty() {
            return Err(fail(text, &lexed, "tokenize returned Err with an empty error list".into()));
        }
        // Clusters (by the library's high-level segmentation API) containing an unexpected char.
        let clusters: Vec<(usize, usize)> =
            text.grapheme_indices(true).map(|(i, g)| (i, i + g.len())).collect();
        let cluster_of = |p: usize| clusters.iter().copied().find(|(s, e)| *s <= p && p < *e).unwrap();
        let mut covered = vec![false; lexed.unexpected.len()];
        let mut cursor = 0usize; // diagnostics must come in source order
        for e in &errors {
            let m = &e.message;
            let Some(rest) = m.strip_prefix("[Error] Unexpected symbol `") else {
                return Err(fail(text, &lexed, format!("unexpected diagnostic {m:?}")));
            };
            let head = rest.split("\n\n").next().unwrap_or(rest);
            // The symbol itself may contain a line break only if it is one (never: '\n' is layout).
            let Some(sym) = head.strip_suffix("`.") else {
                return Err(fail(text, &lexed, format!("cannot find the quoted symbol in {m:?}")));
            };
            // Find the first not-yet-passed unexpected position whose cluster suffix is `sym`.
            let mut matched = None;
            for (k, p) in lexed.unexpected.iter().enumerate().skip(cursor) {
                let (_, ce) = cluster_of(*p);
                if &text[*p..ce] == sym {
                    matched = Some(k);
                    break;
                }
            }
            let Some(k) = matched else {
                return Err(fail(text, &lexed, format!(
                    "diagnostic quotes {sym:?}, which is not the rest of a grapheme cluster at any remaining unexpected position {:?}",
                    &lexed.unexpected[cursor.min(lexed.unexpected.len())..]
                )));
            };
            // Every unexpected char of the same cluster from k on is covered by this diagnostic.
            let (_, ce) = cluster_of(lexed.unexpected[k]);
            for (j, p) in lexed.unexpected.iter().enumerate().skip(k) {
                if *p < ce {
                    covered[j] = true;
                }
            }
            cursor = k + 1;
        }
        // Every cluster with an unexpected char must be covered.
        for (j, p) in lexed.unexpected.iter().enumerate() {
            if !covered[j] {
                let (cs, ce) = cluster_of(*p);
                // Covered if any other unexpected char in the same cluster was matched.
                let any = lexed.unexpected.iter().enumerate().any(|(q, pp)| covered[q] && *pp >= cs && *pp < ce);
                if !any {
                    return Err(fail(text, &lexed, format!(
                        "unexpected symbol at byte {p} ({:?}) is not reported by any diagnostic ({} diagnostics)",
                        &text[cs..ce], errors.len()
                    )));
                }
            }
        }
        return Ok(Info {
            tokens: lexed.toks.len(),
            nontrivial: lexed.unexpected.len() >= 2 && lexed.toks.len() >= 1,
            class: "error: unexpected symbols",
        });
    }

    let tokens = match got {
        Ok(t) => t,
        Err(e) => {
            return Err(fail(text, &lexed, format!(
                "text has no unexpected symbol but tokenize returned Err: {:?}",
                e.iter().map(|x| x.message.clone()).collect::<Vec<_>>()
            )));
        }
    };

    // Direct invariants on the result.
    let mut prev_end = 0usize;
    for (n, t) in tokens.iter().enumerate() {
        let (s, e) = (t.source_range.start, t.source_range.end);
        if !(s < e && e <= text.len() && s >= prev_end) {
            return Err(fail(text, &lexed, format!("token {n} has range {s}..{e} (previous end {prev_end}, text length {})", text.len())));
        }
        if !text.is_char_boundary(s) || !text.is_char_boundary(e) {
            return Err(fail(text, &lexed, format!("token {n} range {s}..{e} is not on character boundaries")));
        }
        let slice = &text[s..e];
        let ok = match &t.variant {
            Variant::Identifier(name) => *name == slice && !KEYWORDS.contains(&slice),
            Variant::IntegerLiteral(v) => {
                !slice.is_empty() && slice.bytes().all(|b| b.is_ascii_digit()) && *v == lex::decimal(slice)
            }
            Variant::Terminator(TerminatorType::LineBreak) => slice == "\n",
            Variant::Terminator(TerminatorType::Semicolon) => slice == ";",
            v => tok::kind_of(v).spelling() == Some(slice),
        };
        if !ok {
            return Err(fail(text, &lexed, format!("token {n} ({}) does not spell its own text {slice:?}", t.variant)));
        }
        // The gap before the token: whitespace and comments only.
        if !gap_is_layout(&text[prev_end..s]) {
            return Err(fail(text, &lexed, format!("text between tokens {:?} is not only whitespace and comments", &text[prev_end..s])));
        }
        prev_end = e;
    }
    if !gap_is_layout(&text[prev_end..]) {
        return Err(fail(text, &lexed, format!("text after the last token {:?} is not only whitespace and comments", &text[prev_end..])));
    }

    // Differential against R-lex.
    let mut gi = 0usize;
    let mut expected_breaks = 0usize;
    for (k, rt) in lexed.toks.iter().enumerate() {
        // Line-break terminators gram put before this token.
        let mut breaks = vec![];
        while gi < tokens.len() && matches!(tokens[gi].variant, Variant::Terminator(TerminatorType::LineBreak)) {
            breaks.push(gi);
            gi += 1;
        }
        let verdict = if k == 0 {
            Tri::No
        } else {
            let prev = &lexed.toks[k - 1];
            if lex::gap_has_newline(text, prev.end, rt.start).is_some() {
                lex::terminator_between(prev.tok.kind(), rt.tok.kind())
            } else {
                Tri::No
            }
        };
        let ok = match verdict {
            Tri::Yes => breaks.len() == 1,
            Tri::No => breaks.is_empty(),
            Tri::DontCare => breaks.len() <= 1,
        };
        if !ok {
            return Err(fail(text, &lexed, format!(
                "{} line-break terminator(s) before token {k} ({:?}); the layout rule says {verdict:?}",
                breaks.len(), rt.tok
            )));
        }
        if verdict == Tri::Yes {
            expected_breaks += 1;
        }
        for b in &breaks {
            let r = tokens[*b].source_range;
            let prev_end = if k == 0 { 0 } else { lexed.toks[k - 1].end };
            if !(r.start >= prev_end && r.end <= rt.start) {
                return Err(fail(text, &lexed, format!("line-break terminator at {}..{} lies outside the gap it belongs to", r.start, r.end)));
            }
        }
        if gi >= tokens.len() {
            return Err(fail(text, &lexed, format!("token {k} ({:?} at {}..{}) is missing from the result", rt.tok, rt.start, rt.end)));
        }
        let g = &tokens[gi];
        let same = tok::from_gram(g) == rt.tok && g.source_range.start == rt.start && g.source_range.end == rt.end;
        if !same {
            return Err(fail(text, &lexed, format!(
                "token {k}: expected {:?} at {}..{}, got {} at {}..{}",
                rt.tok, rt.start, rt.end, g.variant, g.source_range.start, g.source_range.end
            )));
        }
        gi += 1;
    }
    if gi != tokens.len() {
        return Err(fail(text, &lexed, format!("{} extra token(s) at the end of the result, first is {}", tokens.len() - gi, tokens[gi].variant)));
    }

    // Classification.
    let two_char = lexed.toks.iter().any(|t| matches!(t.tok.kind(), K::ThinArrow | K::ThickArrow | K::DoubleEquals | K::LessThanOrEqual | K::GreaterThanOrEqual));
    let kwlike = lexed.toks.iter().any(|t| match &t.tok {
        Tok::Ident(s) => KEYWORDS.iter().any(|k| s.starts_with(k) || k.starts_with(s.as_str())),
        _ => false,
    });
    let long_lit = lexed.toks.iter().any(|t| t.end - t.start >= 20 && t.tok.kind() == K::IntegerLiteral);
    let nontrivial = lexed.toks.len() >= 2 && (two_char || multibyte || kwlike || long_lit || expected_breaks > 0);
    Ok(Info { tokens: lexed.toks.len(), nontrivial, class: if expected_breaks > 0 { "ok: with line-break terminator" } else { "ok" } })
}

fn gap_is_layout(gap: &str) -> bool {
    let mut in_comment = false;
    for c in gap.chars() {
        if in_comment {
            if c == '\n' {
                in_comment = false;
            }
        } else if c == '#' {
            in_comment = true;
        } else if !c.is_whitespace() {
            return false;
        }
    }
    true
}

// ---------------------------------------------------------------------------------------------
// Domains
// ---------------------------------------------------------------------------------------------

pub const ALPHA_CLASSES: [&str; 20] = [
    "a", "i", "f", "_", "0", "7", "é", "٣", "(", "-", ">", "=", "<", ":", ";", "#", "\n", " ", "$", "\u{0301}",
];
pub const ALPHA_OPERATORS: [&str; 21] = [
    "a", "1", "(", ")", "{", "}", "*", "+", "/", "-", ">", "=", "<", ":", ";", "\n", " ", "\t", "\r", "\u{00A0}", "#",
];
pub const ALPHA_KEYWORDS: [&str; 11] = ["i", "n", "t", "f", "y", "p", "e", "_", "2", " ", "\n"];

/// Enumerate all strings of exactly `len` symbols over `alphabet` whose index is ≡ shard.
pub fn for_each_string(alphabet: &[&str], len: usize, shard: u32, nshards: u32, mut f: impl FnMut(&str)) -> u64 {
    let a = alphabet.len() as u64;
    let total = a.pow(len as u32);
    let mut s = String::new();
    let mut n = 0;
    let mut idx = u64::from(shard);
    while idx < total {
        s.clear();
        let mut x = idx;
        for _ in 0..len {
            s.push_str(alphabet[(x % a) as usize]);
            x /= a;
        }
        f(&s);
        n += 1;
        idx += u64::from(nshards);
    }
    n
}

fn enumerate_part(ctx: &Ctx, alphabet: &[&str], max_len: usize) {
    for len in 0..=max_len {
        let n = for_each_string(alphabet, len, ctx.shard, ctx.nshards, |s| {
            match check_text(s) {
                Ok(info) => {
                    if info.nontrivial {
                        ctx.nontrivial_enumerated(|| format!("{s:?}"));
                    }
                }
                Err(f) => ctx.settle(Err(f)),
            }
        });
        ctx.evaluated(n);
    }
}

const SPELLINGS: [&str; 60] = [
    "x", "bool", "else", "false", "if", "int", "then", "true", "type", "iff", "int2", "type_", "thenx", "_a",
    "_", "boolean", "i", "in", "typ", "é", "λx", "名", "x٣", "a_b", "truefalse", "0", "1", "007", "42",
    "18446744073709551616", "340282366920938463463374607431768211456",
    "000000000000000000000000000000000000000000000000000000000000000000000000000001",
    "*", ":", "==", "=", ">", ">=", "{", "(", "<", "<=", "-", "+", "}", ")", "/", ";", "=>", "->",
    "=", "-", ">", "<", "- >", "= =", "=>=", "-->", "<==", ">>=",
];

const GAPS: [&str; 16] = [
    "", " ", "", "  ", "\t", "\n", " \n ", "\n\n", "# c\n", "#\n", " # é\n", "\r\n", "\u{00A0}", "\u{3000}", "#x", "# # \n",
];

pub fn gen_soup(ch: &mut Ch) -> String {
    let n = 1 + ch.pick(14);
    let mut s = String::new();
    for _ in 0..n {
        s.push_str(GAPS[ch.pick(GAPS.len())]);
        let k = ch.pick(SPELLINGS.len() + 2);
        if k < SPELLINGS.len() {
            s.push_str(SPELLINGS[k]);
        } else if k == SPELLINGS.len() {
            // A long literal with leading zeros.
            let digits = 1 + ch.pick(80);
            for _ in 0..digits {
                s.push(char::from(b'0' + ch.pick(10) as u8));
            }
        } else {
            // An identifier assembled from identifier characters.
            let len = 1 + ch.pick(6);
            let pool = ['a', 'Z', '_', '9', 'é', 'ß', '٣', '名', 'x'];
            for i in 0..len {
                let c = pool[ch.pick(pool.len())];
                if i == 0 && c.is_numeric() {
                    s.push('q');
                }
                s.push(c);
            }
        }
    }
    s.push_str(GAPS[ch.pick(GAPS.len())]);
    s
}

const UNICODE_POOL: [char; 48] = [
    'a', 'z', 'A', '_', '0', '9', ' ', '\n', '\t', '\r', '#', ';', '(', ')', '{', '}', '=', '>', '<', '-', '+', '*',
    '/', ':', '$', '@', '`', '\\', '"', '\'', 'é', 'ß', 'λ', '名', '٣', '²', '\u{0301}', '\u{200D}', '\u{FE0F}',
    '👩', '💻', '🇩', '🇪', '\u{00A0}', '\u{2028}', '\u{0085}', '\u{0000}', '\u{FEFF}',
];

pub fn gen_unicode(ch: &mut Ch) -> String {
    let n = ch.pick(60);
    let mut s = String::new();
    for _ in 0..n {
        if ch.chance(1, 8) {
            // Any scalar value.
            let v = (u32::from(ch.raw()) << 5) ^ u32::from(ch.raw());
            if let Some(c) = char::from_u32(v % 0x11_0000) {
                s.push(c);
            }
        } else {
            s.push(UNICODE_POOL[ch.pick(UNICODE_POOL.len())]);
        }
    }
    s
}

fn prop_case(ctx: &Ctx, text: &str) -> Outcome {
    match check_text(text) {
        Ok(info) => {
            ctx.class(info.class);
            if info.nontrivial {
                ctx.nontrivial(&format!("{text:?}"));
            }
            Ok(())
        }
        Err(f) => Err(f),
    }
}

pub fn def(tier: crate::runner::Tier) -> CheckDef {
    let l_classes = tier.pick(6, 7);
    let l_ops = tier.pick(5, 6);
    let l_kw = tier.pick(7, 8);
    let soup_rounds = tier.pick(2, 20);
    let uni_rounds = tier.pick(2, 20);
    CheckDef {
        id: "C09",
        level: "exploration",
        rule: "all strings up to a length bound over three alphabets (one representative per character class; all operators, brackets and whitespace kinds; the letters that spell keywords) exhaustively, plus proptest-generated token soups (weighted spellings joined by generated gaps) and random Unicode strings; oracle = reference lexer (R-lex) differential + range/partition invariants; non-trivial = at least two tokens and a two-character operator, a multi-byte character, a keyword-like identifier, a literal of 20+ digits or a line-break terminator, or an error case with two or more unexpected symbols; distinct by text",
        assumptions: vec![
            "`}` before a line break: the property statement does not settle whether it 'can end an expression'; either result is accepted (only reachable in invalid programs)",
            "grapheme clusters are those of unicode-segmentation's `graphemes(true)` (the library gram itself depends on, used through a different API)",
            "char::is_alphabetic / is_alphanumeric / is_whitespace of the Rust standard library define the character classes",
        ],
        idle_limit_s: 300,
        needs_cli: false,
        fuzz: Some(("fuzz_lex", 1500000)),
        parts: vec![
            Part {
                name: "fuzz",
                rounds: 0,
                run: Box::new(|_, _| {}),
                replay: Some(Box::new(|ctx, inp| match inp {
                    ReplayInput::Text(t) => prop_case(ctx, t),
                    ReplayInput::Bytes(b) => { let t = String::from_utf8_lossy(b).into_owned(); prop_case(ctx, &t) }
                    ReplayInput::Choices(_) => Err(Failure::new("the fuzz part replays raw artifacts", "")),
                })),
            },
            Part {
                name: "enum-classes",
                rounds: 1,
                run: Box::new(move |ctx, _| {
                    enumerate_part(ctx, &ALPHA_CLASSES, l_classes);
                    ctx.exhaustive("enum-classes");
                    ctx.note(&format!("enum-classes: all strings of length <= {l_classes} over {} symbols", ALPHA_CLASSES.len()));
                }),
                replay: Some(Box::new(replay_text)),
            },
            Part {
                name: "enum-operators",
                rounds: 1,
                run: Box::new(move |ctx, _| {
                    enumerate_part(ctx, &ALPHA_OPERATORS, l_ops);
                    ctx.exhaustive("enum-operators");
                    ctx.note(&format!("enum-operators: all strings of length <= {l_ops} over {} symbols", ALPHA_OPERATORS.len()));
                }),
                replay: Some(Box::new(replay_text)),
            },
            Part {
                name: "enum-keywords",
                rounds: 1,
                run: Box::new(move |ctx, _| {
                    enumerate_part(ctx, &ALPHA_KEYWORDS, l_kw);
                    ctx.exhaustive("enum-keywords");
                    ctx.note(&format!("enum-keywords: all strings of length <= {l_kw} over {} symbols", ALPHA_KEYWORDS.len()));
                }),
                replay: Some(Box::new(replay_text)),
            },
            Part {
                name: "soup",
                rounds: soup_rounds,
                run: Box::new(|ctx, r| {
                    ctx.prop("soup", r, 1500, 120, |ctx, ch| {
                        let text = gen_soup(ch);
                        prop_case(ctx, &text)
                    });
                }),
                replay: Some(Box::new(|ctx, inp| match inp {
                    ReplayInput::Choices(c) => prop_case(ctx, &gen_soup(&mut Ch::new(c))),
                    other => replay_text(ctx, other),
                })),
            },
            Part {
                name: "unicode",
                rounds: uni_rounds,
                run: Box::new(|ctx, r| {
                    ctx.prop("unicode", r, 1500, 200, |ctx, ch| {
                        let text = gen_unicode(ch);
                        prop_case(ctx, &text)
                    });
                }),
                replay: Some(Box::new(|ctx, inp| match inp {
                    ReplayInput::Choices(c) => prop_case(ctx, &gen_unicode(&mut Ch::new(c))),
                    other => replay_text(ctx, other),
                })),
            },
        ],
    }
}

/// Replay files of enumeration parts store the text as a Rust debug string.
pub fn undebug(s: &str) -> String {
    // Inverse of `format!("{:?}", text)` for the escapes Rust produces.
    let inner = s.strip_prefix('"').and_then(|x| x.strip_suffix('"')).unwrap_or(s);
    let mut out = String::new();
    let mut it = inner.chars().peekable();
    while let Some(c) = it.next() {
        if c != '\\' {
            out.push(c);
            continue;
        }
        match it.next() {
            Some('n') => out.push('\n'),
            Some('r') => out.push('\r'),
            Some('t') => out.push('\t'),
            Some('0') => out.push('\0'),
            Some('\\') => out.push('\\'),
            Some('"') => out.push('"'),
            Some('\'') => out.push('\''),
            Some('u') => {
                let mut hex = String::new();
                if it.next() == Some('{') {
                    for h in it.by_ref() {
                        if h == '}' {
                            break;
                        }
                        hex.push(h);
                    }
                }
                if let Some(ch) = u32::from_str_radix(&hex, 16).ok().and_then(char::from_u32) {
                    out.push(ch);
                }
            }
            Some(o) => {
                out.push('\\');
                out.push(o);
            }
            None => out.push('\\'),
        }
    }
    out
}

fn replay_text(ctx: &Ctx, inp: &ReplayInput) -> Outcome {
    match inp {
        ReplayInput::Text(t) => prop_case(ctx, &undebug(t)),
        _ => Err(Failure::new("this part replays from text", "")),
    }
}
