//! C11 — Substitution and index shifting are capture-avoiding.

use crate::de_bruijn::{open, signed_shift, unsigned_shift};
use crate::dterm::{D, Enumerator, OPS};
use crate::refs::subst::{Fresh, N, Name, free_names, from_named, subst, to_named};
use crate::runner::{CheckDef, Ctx, Failure, Outcome, Part, ReplayInput, Tier};
use crate::term::free_variables;
use crate::util::Ch;
use std::collections::{BTreeSet, HashSet};

fn max_free(d: &D) -> usize {
    let mut s = BTreeSet::new();
    d.free(0, &mut s);
    s.iter().next_back().map_or(0, |m| m + 1)
}

fn ctx_names(m: usize) -> Vec<Name> {
    (1..=m as Name).collect()
}

fn bad(what: &str, t: &D, detail: String) -> Failure {
    Failure::new(format!("{what}: {detail}"), format!("{} | {}", t.show(), what))
}

/// signed_shift(t, c, k) against the named model. Returns whether the case was non-trivial.
pub fn check_shift(t: &D, c: usize, k: isize) -> Result<bool, Failure> {
    let ak = k.unsigned_abs();
    let m = max_free(t).max(c + ak) + 1;
    let gamma = ctx_names(m);
    let mut fresh = Fresh(1000);
    let named = to_named(t, &mut gamma.clone(), &mut fresh).expect("context covers the term");
    let got = signed_shift(&t.to_gram(), c, k).map(|r| D::from_gram(&r));
    let what = format!("signed_shift(t, {c}, {k})");
    let mut fv = BTreeSet::new();
    free_names(&named, &mut vec![], &mut fv);
    let expected: Option<D> = if k >= 0 {
        let mut r: Vec<Name> = gamma[..m - c].to_vec();
        for _ in 0..ak {
            r.push(fresh.next());
        }
        r.extend_from_slice(&gamma[m - c..]);
        Some(from_named(&named, &mut r).expect("all names bound"))
    } else {
        let removed: Vec<Name> = gamma[m - c - ak..m - c].to_vec();
        if removed.iter().any(|x| fv.contains(x)) {
            None
        } else {
            let mut r: Vec<Name> = gamma.iter().copied().filter(|x| !removed.contains(x)).collect();
            Some(from_named(&named, &mut r).expect("all names bound"))
        }
    };
    if got != expected {
        return Err(bad(&what, t, format!(
            "got {}, the named model gives {}",
            got.as_ref().map_or("None".into(), D::show),
            expected.as_ref().map_or("None".into(), D::show)
        )));
    }
    // Non-trivial: crosses a binder and a free variable >= cutoff exists.
    let mut f = BTreeSet::new();
    t.free(0, &mut f);
    Ok(t.has_binder() && f.iter().any(|i| *i >= c) && k != 0)
}

pub fn check_open(t: &D, i: usize, u: &D, s: usize) -> Result<bool, Failure> {
    let m = max_free(t).max(i + 1).max(s + max_free(u) + 1);
    let gamma = ctx_names(m);
    let mut fresh = Fresh(1000);
    let x = gamma[m - 1 - i];
    let mut gamma_r: Vec<Name> = gamma.iter().copied().filter(|y| *y != x).collect();
    let gamma_u: Vec<Name> = gamma_r[..gamma_r.len() - s].to_vec();
    let nt = to_named(t, &mut gamma.clone(), &mut fresh).expect("context covers t");
    let nu = to_named(u, &mut gamma_u.clone(), &mut fresh).expect("context covers u");
    let expected = from_named(&subst(&nt, x, &nu, &mut fresh), &mut gamma_r).expect("all names bound");
    let got = D::from_gram(&open(&t.to_gram(), i, &u.to_gram(), s));
    let what = format!("open(t, {i}, u = {}, {s})", u.show());
    if got != expected {
        return Err(bad(&what, t, format!("got {}, capture-avoiding substitution gives {}", got.show(), expected.show())));
    }
    let mut f = BTreeSet::new();
    t.free(0, &mut f);
    if !f.contains(&i) {
        // Opening on an index that does not occur merely lowers the indices above it.
        let lowered = signed_shift(&t.to_gram(), i, -1).map(|r| D::from_gram(&r));
        if lowered.as_ref() != Some(&got) {
            return Err(bad(&what, t, format!(
                "index {i} does not occur, yet the result {} differs from lowering the indices above it ({})",
                got.show(), lowered.as_ref().map_or("None".into(), D::show)
            )));
        }
    }
    Ok(t.has_binder() && f.contains(&i))
}

pub fn check_free(t: &D, c: usize) -> Result<(), Failure> {
    let m = max_free(t).max(c) + 1;
    let gamma = ctx_names(m);
    let mut fresh = Fresh(1000);
    let named = to_named(t, &mut gamma.clone(), &mut fresh).expect("context covers t");
    let mut fv = BTreeSet::new();
    free_names(&named, &mut vec![], &mut fv);
    let expected: BTreeSet<usize> = fv
        .iter()
        .map(|x| m - 1 - gamma.iter().position(|y| y == x).unwrap())
        .filter(|i| *i >= c)
        .map(|i| i - c)
        .collect();
    let mut got = HashSet::new();
    free_variables(&t.to_gram(), c, &mut got);
    let got: BTreeSet<usize> = got.into_iter().collect();
    if got != expected {
        return Err(bad(&format!("free_variables(t, {c})"), t, format!("got {got:?}, the named model gives {expected:?}")));
    }
    Ok(())
}

pub fn check_laws(t: &D, c: usize) -> Result<(), Failure> {
    let g = t.to_gram();
    let id = signed_shift(&g, c, 0).map(|r| D::from_gram(&r));
    if id.as_ref() != Some(t) {
        return Err(bad(&format!("signed_shift(t, {c}, 0)"), t, format!("shifting by zero is not the identity: {}", id.map_or("None".into(), |d| d.show()))));
    }
    for a in 0..3usize {
        let sa = unsigned_shift(&g, c, a);
        for b in 0..3usize {
            let two = D::from_gram(&unsigned_shift(&sa, c, b));
            let one = D::from_gram(&unsigned_shift(&g, c, a + b));
            if two != one {
                return Err(bad(&format!("shift({c},{b}) after shift({c},{a})"), t, format!("{} differs from shift({c},{}) = {}", two.show(), a + b, one.show())));
            }
        }
        let back = signed_shift(&sa, c, -(a as isize)).map(|r| D::from_gram(&r));
        if back.as_ref() != Some(t) {
            return Err(bad(&format!("signed_shift(unsigned_shift(t, {c}, {a}), {c}, -{a})"), t, format!("does not undo the upward shift: {}", back.map_or("None".into(), |d| d.show()))));
        }
    }
    Ok(())
}

fn inserts() -> Vec<D> {
    vec![
        D::Var(0),
        D::Var(2),
        D::App(Box::new(D::Var(1)), Box::new(D::Var(0))),
        D::Lam(false, Box::new(D::Var(0)), Box::new(D::App(Box::new(D::Var(0)), Box::new(D::Var(2))))),
        D::Let(vec![(D::Var(1), D::Var(0))], Box::new(D::Var(2))),
    ]
}

/// The whole parameter grid for one term. Returns the number of non-trivial (term, params) cases.
fn grid(ctx: &Ctx, t: &D, ins: &[D]) -> u64 {
    let mut nt = 0;
    let mut evals = 0u64;
    for c in 0..=3usize {
        for k in -3..=3isize {
            evals += 1;
            match check_shift(t, c, k) {
                Ok(true) => nt += 1,
                Ok(false) => {}
                Err(f) => {
                    ctx.settle(Err(f));
                    return nt;
                }
            }
        }
        evals += 2;
        if let Err(f) = check_free(t, c).and_then(|()| check_laws(t, c)) {
            ctx.settle(Err(f));
            return nt;
        }
    }
    for i in 0..=3usize {
        for u in ins {
            for s in 0..=2usize {
                evals += 1;
                match check_open(t, i, u, s) {
                    Ok(true) => nt += 1,
                    Ok(false) => {}
                    Err(f) => {
                        ctx.settle(Err(f));
                        return nt;
                    }
                }
            }
        }
    }
    ctx.evaluated(evals);
    nt
}

fn enum_leaves() -> Vec<D> {
    vec![D::Type, D::lit(1), D::True, D::Var(0), D::Var(1), D::Var(2), D::Var(3)]
}

pub fn gen_term(ch: &mut Ch, fuel: usize, depth: usize) -> D {
    let leaf = |ch: &mut Ch| match ch.pick(9) {
        0 => D::Var(ch.pick(depth + 4)),
        1 => D::Type,
        2 => D::Int,
        3 => D::Bool,
        4 => D::True,
        5 => D::False,
        6 => D::lit(ch.pick(5) as i64),
        _ => D::Var(ch.pick(depth + 4)),
    };
    if fuel == 0 {
        return leaf(ch);
    }
    let sub = |ch: &mut Ch, d: usize| Box::new(gen_term(ch, fuel - 1, d));
    match ch.pick(10) {
        0 | 1 => leaf(ch),
        2 => D::Lam(ch.chance(1, 4), sub(ch, depth), sub(ch, depth + 1)),
        3 => D::Pi(ch.chance(1, 4), sub(ch, depth), sub(ch, depth + 1)),
        4 => D::App(sub(ch, depth), sub(ch, depth)),
        5 | 6 => {
            let n = 1 + ch.pick(3);
            let defs = (0..n).map(|_| (*sub(ch, depth + n), *sub(ch, depth + n))).collect();
            D::Let(defs, sub(ch, depth + n))
        }
        7 => D::Neg(sub(ch, depth)),
        8 => D::Bin(OPS[ch.pick(9)], sub(ch, depth), sub(ch, depth)),
        _ => D::If(sub(ch, depth), sub(ch, depth), sub(ch, depth)),
    }
}

fn random_case(ctx: &Ctx, ch: &mut Ch) -> Outcome {
    let fuel = 2 + ch.pick(5);
    let t = gen_term(ch, fuel, 0);
    let u = gen_term(ch, 2, 0);
    let c = ch.pick(5);
    let k = ch.pick(9) as isize - 4;
    let i = ch.pick(5);
    let s = ch.pick(4);
    let a = check_shift(&t, c, k)?;
    let b = check_open(&t, i, &u, s)?;
    check_free(&t, c)?;
    check_laws(&t, c)?;
    if a || b {
        ctx.class(if t.has_multi_let() { "non-trivial, with a group of >= 2 definitions" } else { "non-trivial" });
        ctx.nontrivial(&format!("t={} c={c} k={k} i={i} u={} s={s}", t.show(), u.show()));
    } else {
        ctx.class("trivial (no binder crossed or variable not affected)");
    }
    Ok(())
}

pub fn def(tier: Tier) -> CheckDef {
    let max_size = tier.pick(5, 6);
    let rounds = tier.pick(4, 60);
    CheckDef {
        id: "C11",
        level: "exploration",
        rule: "all hole-free de Bruijn terms up to a node-count bound over 7 leaves and every former, all groups of 1-3 definitions with leaf slots (bare and under a binder), each against the grid cutoff 0..3 x amount -3..3 (shift), index 0..3 x 5 inserted terms x shift 0..2 (open), cutoff 0..3 (free variables, algebraic laws); plus proptest-generated terms of depth up to 7 with groups of up to 3 definitions; oracle = capture-avoiding substitution / renaming on named terms with globally fresh binder names; a (term, parameters) case is non-trivial when the term crosses a binder and has a free variable at or above the cutoff / equal to the replaced index; enumerated cases are distinct by construction, generated ones by text",
        assumptions: vec![
            "open(t, i, u, s): u is valid in the result context without its s innermost entries (the convention under which the evaluator, normaliser and checker call it)",
            "hole (unifier) arms are outside this property's domain",
        ],
        idle_limit_s: 600,
        needs_cli: false,
        fuzz: None,
        parts: vec![
            Part {
                name: "enum-small",
                rounds: 1,
                run: Box::new(move |ctx, _| {
                    let mut e = Enumerator::new(enum_leaves());
                    e.upto(max_size);
                    let ins = inserts();
                    let mut idx = 0u64;
                    for n in 1..=max_size {
                        for t in &e.by_size[n] {
                            if idx % u64::from(ctx.nshards) == u64::from(ctx.shard) {
                                let nt = grid(ctx, t, &ins);
                                for _ in 0..nt {
                                    ctx.nontrivial_enumerated(|| format!("{} with one parameter tuple of the grid", t.show()));
                                }
                                if ctx.peek_violations() > 3 {
                                    return;
                                }
                            }
                            idx += 1;
                        }
                    }
                    ctx.exhaustive("enum-small");
                    ctx.note(&format!("enum-small: {idx} terms of size <= {max_size}"));
                }),
                replay: None,
            },
            Part {
                name: "enum-groups",
                rounds: 1,
                run: Box::new(move |ctx, _| {
                    let leaves = vec![D::Type, D::Var(0), D::Var(1), D::Var(2), D::Var(3), D::Var(4)];
                    let ins = inserts();
                    let mut idx = 0u64;
                    for n in 1..=3usize {
                        let slots = 2 * n + 1;
                        let total = (leaves.len() as u64).pow(slots as u32);
                        for code in 0..total {
                            if code % u64::from(ctx.nshards) == u64::from(ctx.shard) {
                                let mut x = code;
                                let mut pickd = || {
                                    let l = leaves[(x % leaves.len() as u64) as usize].clone();
                                    x /= leaves.len() as u64;
                                    l
                                };
                                let defs: Vec<(D, D)> = (0..n).map(|_| (pickd(), pickd())).collect();
                                let body = pickd();
                                let g = D::Let(defs, Box::new(body));
                                let wrapped = D::Lam(false, Box::new(D::Var(0)), Box::new(g.clone()));
                                for t in [&g, &wrapped] {
                                    let nt = grid(ctx, t, &ins);
                                    for _ in 0..nt {
                                        ctx.nontrivial_enumerated(|| format!("{} with one parameter tuple of the grid", t.show()));
                                    }
                                }
                                if ctx.peek_violations() > 3 {
                                    return;
                                }
                            }
                            idx += 1;
                        }
                    }
                    ctx.exhaustive("enum-groups");
                    ctx.note(&format!("enum-groups: {idx} groups of 1-3 definitions, each bare and under a lambda"));
                }),
                replay: None,
            },
            Part {
                name: "random",
                rounds,
                run: Box::new(|ctx, r| ctx.prop("random", r, 2000, 300, random_case)),
                replay: Some(Box::new(|ctx, inp| match inp {
                    ReplayInput::Choices(c) => random_case(ctx, &mut Ch::new(c)),
                    _ => Err(Failure::new("this part replays from choices", "")),
                })),
            },
        ],
    }
}
