//! C12 — Unification succeeds only with a consistent, well-scoped solution.

use crate::dterm::D;
use crate::gens::prog::{self, ProgCfg};
use crate::refs::core::{self, Names, Nbe};
use crate::runner::{CheckDef, Ctx, Failure, Outcome, Part, ReplayInput, Tier, catch};
use crate::term::{Term, Variant};
use crate::unifier::unify;
use crate::util::Ch;
use std::cell::RefCell;
use std::collections::BTreeSet;
use std::rc::Rc;

pub const SIG_HOLE_IDENTITY: &str = "hole-identity-lost-under-substitution";

type Cell<'a> = Rc<RefCell<Option<Term<'a>>>>;

struct Site {
    index: usize,
    depth: usize,
    /// Smallest free index of the subterm (None if closed).
    min_free: Option<usize>,
    size: usize,
}

fn children<'t, 'a>(t: &'t Term<'a>) -> Vec<(&'t Rc<Term<'a>>, usize)> {
    // (child, number of binders crossed)
    match &t.variant {
        Variant::Lambda(_, _, a, b) | Variant::Pi(_, _, a, b) => vec![(a, 0), (b, 1)],
        Variant::Application(a, b)
        | Variant::Sum(a, b)
        | Variant::Difference(a, b)
        | Variant::Product(a, b)
        | Variant::Quotient(a, b)
        | Variant::LessThan(a, b)
        | Variant::LessThanOrEqualTo(a, b)
        | Variant::EqualTo(a, b)
        | Variant::GreaterThan(a, b)
        | Variant::GreaterThanOrEqualTo(a, b) => vec![(a, 0), (b, 0)],
        Variant::Negation(a) => vec![(a, 0)],
        Variant::If(a, b, c) => vec![(a, 0), (b, 0), (c, 0)],
        Variant::Let(defs, body) => {
            let n = defs.len();
            let mut v = vec![];
            for (_, a, d) in defs {
                v.push((a, n));
                v.push((d, n));
            }
            v.push((body, n));
            v
        }
        _ => vec![],
    }
}

fn sites(t: &Term, depth: usize, counter: &mut usize, out: &mut Vec<Site>) {
    let index = *counter;
    *counter += 1;
    let d = D::from_gram(t);
    let mut fv = BTreeSet::new();
    d.free(0, &mut fv);
    out.push(Site { index, depth, min_free: fv.iter().next().copied(), size: d.size() });
    for (c, k) in children(t) {
        sites(c, depth + k, counter, out);
    }
}

struct Punch<'a> {
    index: usize,
    cell: Cell<'a>,
    shift: usize,
    depth: usize,
}

/// Rebuild `t` with the chosen subterms replaced by holes.
fn punch<'a>(t: &Term<'a>, counter: &mut usize, plan: &[Punch<'a>], skipped: &mut usize) -> Term<'a> {
    let index = *counter;
    *counter += 1;
    if let Some(p) = plan.iter().find(|p| p.index == index) {
        // Skip the indices of the removed subtree.
        let mut inner = vec![];
        let mut c2 = 0;
        sites(t, 0, &mut c2, &mut inner);
        *counter += inner.len() - 1;
        *skipped += 1;
        return Term { source_range: None, variant: Variant::Unifier(p.cell.clone(), p.shift) };
    }
    let rc = |c: &Rc<Term<'a>>, counter: &mut usize, skipped: &mut usize| Rc::new(punch(c, counter, plan, skipped));
    let variant = match &t.variant {
        Variant::Lambda(n, im, a, b) => {
            let a = rc(a, counter, skipped);
            Variant::Lambda(n, *im, a, rc(b, counter, skipped))
        }
        Variant::Pi(n, im, a, b) => {
            let a = rc(a, counter, skipped);
            Variant::Pi(n, *im, a, rc(b, counter, skipped))
        }
        Variant::Application(a, b) => {
            let a = rc(a, counter, skipped);
            Variant::Application(a, rc(b, counter, skipped))
        }
        Variant::Let(defs, body) => {
            let defs = defs
                .iter()
                .map(|(n, a, d)| {
                    let a = rc(a, counter, skipped);
                    (*n, a, rc(d, counter, skipped))
                })
                .collect();
            Variant::Let(defs, rc(body, counter, skipped))
        }
        Variant::Negation(a) => Variant::Negation(rc(a, counter, skipped)),
        Variant::If(a, b, c) => {
            let a = rc(a, counter, skipped);
            let b = rc(b, counter, skipped);
            Variant::If(a, b, rc(c, counter, skipped))
        }
        Variant::Sum(a, b) => {
            let a = rc(a, counter, skipped);
            Variant::Sum(a, rc(b, counter, skipped))
        }
        Variant::Difference(a, b) => {
            let a = rc(a, counter, skipped);
            Variant::Difference(a, rc(b, counter, skipped))
        }
        Variant::Product(a, b) => {
            let a = rc(a, counter, skipped);
            Variant::Product(a, rc(b, counter, skipped))
        }
        Variant::Quotient(a, b) => {
            let a = rc(a, counter, skipped);
            Variant::Quotient(a, rc(b, counter, skipped))
        }
        Variant::LessThan(a, b) => {
            let a = rc(a, counter, skipped);
            Variant::LessThan(a, rc(b, counter, skipped))
        }
        Variant::LessThanOrEqualTo(a, b) => {
            let a = rc(a, counter, skipped);
            Variant::LessThanOrEqualTo(a, rc(b, counter, skipped))
        }
        Variant::EqualTo(a, b) => {
            let a = rc(a, counter, skipped);
            Variant::EqualTo(a, rc(b, counter, skipped))
        }
        Variant::GreaterThan(a, b) => {
            let a = rc(a, counter, skipped);
            Variant::GreaterThan(a, rc(b, counter, skipped))
        }
        Variant::GreaterThanOrEqualTo(a, b) => {
            let a = rc(a, counter, skipped);
            Variant::GreaterThanOrEqualTo(a, rc(b, counter, skipped))
        }
        other => other.clone(),
    };
    Term { source_range: None, variant }
}

/// The subterm with pre-order index `target` (the order of `sites` and `punch`).
fn subterm_at<'t, 'a>(t: &'t Term<'a>, target: usize, counter: &mut usize) -> Option<&'t Term<'a>> {
    let index = *counter;
    *counter += 1;
    if index == target {
        return Some(t);
    }
    for (c, _) in children(t) {
        if let Some(x) = subterm_at(c, target, counter) {
            return Some(x);
        }
    }
    None
}

fn cells_in<'a>(t: &Term<'a>, out: &mut Vec<Cell<'a>>) {
    if let Variant::Unifier(c, _) = &t.variant {
        out.push(c.clone());
        return;
    }
    for (c, _) in children(t) {
        cells_in(c, out);
    }
}

/// Is some solved cell reachable from its own content?
fn cyclic(start: &Cell, on_path: &mut Vec<*const RefCell<Option<Term<'static>>>>) -> bool {
    let p = Rc::as_ptr(start).cast::<RefCell<Option<Term<'static>>>>();
    if on_path.contains(&p) {
        return true;
    }
    let content = start.borrow().clone();
    let Some(content) = content else { return false };
    on_path.push(p);
    let mut inner = vec![];
    cells_in(&content, &mut inner);
    let r = inner.iter().any(|c| cyclic(c, on_path));
    on_path.pop();
    r
}

fn close_with<'a>(group: Option<&Vec<(&'a str, Rc<Term<'a>>, Rc<Term<'a>>)>>, t: Term<'a>) -> Term<'a> {
    match group {
        Some(defs) => Term { source_range: None, variant: Variant::Let(defs.clone(), Rc::new(t)) },
        None => t,
    }
}

fn pattern_case(ctx: &Ctx, ch: &mut Ch) -> Outcome {
    let cfg = ProgCfg { forward_aliases: false, recursion: false, risky_division: false, implicit: true, block_bias: ch.chance(1, 2), ..ProgCfg::default() };
    let kind = ch.pick(3);
    let fuel = 2 + ch.pick(4);
    let Some(pa) = prog::gen_program(ch, cfg.clone(), kind, fuel) else {
        ctx.class("generator: gave up");
        return Ok(());
    };
    let fuel_b = 1 + ch.pick(3);
    let pb = prog::gen_program(ch, cfg, kind, fuel_b);
    if pa.text.len() > 2500 || pb.as_ref().is_some_and(|b| b.text.len() > 2500) {
        return Ok(());
    }
    // All remaining random decisions are drawn now (the closure below must not borrow `ch`).
    let choices: Vec<usize> = (0..40).map(|_| ch.raw() as usize).collect();
    // A near miss of the first program: one point changed by a type-breaking perturbation, or a
    // group made one definition longer / shorter with the body still at the same index.
    let near = if ch.chance(1, 2) { crate::gens::mutate::group_length_variant(&pa.s, ch) } else { Some(crate::gens::mutate::perturb(&pa.s, ch).0) };
    let text_c = near.map(|n| crate::sast::print_plain(&n.flatten())).unwrap_or_else(|| pa.text.clone());
    let text_a = pa.text.clone();
    let text_b = pb.map(|b| b.text).unwrap_or_else(|| "0".to_owned());
    let input_base = text_a.clone();
    ctx.announce(false, None, &input_base);
    let r: Result<Result<Vec<String>, Failure>, String> = catch(|| {
        let mut ci = 0usize;
        let mut next = |n: usize| {
            let v = if n == 0 { 0 } else { choices[ci % choices.len()] % n };
            ci += 1;
            v
        };
        let (Ok(ta), Ok(tb)) = (crate::tokenizer::tokenize(None, &text_a), crate::tokenizer::tokenize(None, &text_b)) else {
            return Ok(vec!["skipped: does not tokenize".into()]);
        };
        let (Ok(t_full), Ok(other_full)) = (crate::parser::parse(None, &text_a, &ta, &[]), crate::parser::parse(None, &text_b, &tb, &[])) else {
            return Ok(vec!["skipped: does not parse".into()]);
        };
        let tc = crate::tokenizer::tokenize(None, &text_c).unwrap_or_default();
        let near_full = if tc.is_empty() { None } else { crate::parser::parse(None, &text_c, &tc, &[]).ok() };
        // Which other side the pattern meets (drawn first: against a near miss the pattern may
        // have no hole at all).
        let side = next(8);
        // With or without a context of definitions.
        let use_ctx = matches!(t_full.variant, Variant::Let(..)) && next(2) == 0;
        let (group, t): (Option<Vec<(&str, Rc<Term>, Rc<Term>)>>, Term) = match (&t_full.variant, use_ctx) {
            (Variant::Let(defs, body), true) => (Some(defs.clone()), (**body).clone()),
            _ => (None, t_full.clone()),
        };
        let base_len = group.as_ref().map_or(0, Vec::len);
        let mut dctx: Vec<Option<(Rc<Term>, usize)>> = vec![];
        if let Some(defs) = &group {
            let n = defs.len();
            for (i, (_, _, d)) in defs.iter().enumerate() {
                dctx.push(Some((d.clone(), n - i)));
            }
        }
        // Candidate sites.
        let mut all = vec![];
        let mut counter = 0;
        sites(&t, 0, &mut counter, &mut all);
        let near_side = side >= 6 && near_full.is_some();
        let nholes = if near_side && next(2) == 0 { 0 } else { 1 + next(4) };
        let mut plan: Vec<Punch> = vec![];
        let mut classes: Vec<String> = vec![];
        let mut expected_solvable = true;
        for h in 0..nholes {
            let s = &all[next(all.len())];
            if s.index == 0 && all.len() > 1 {
                continue; // keep some structure around the holes
            }
            // No nesting / duplicates.
            if plan.iter().any(|p| {
                let ps = all.iter().find(|x| x.index == p.index).unwrap();
                (s.index >= ps.index && s.index < ps.index + ps.size) || (ps.index >= s.index && ps.index < s.index + s.size)
            }) {
                continue;
            }
            let abs_depth = base_len + s.depth;
            let lowerable = s.min_free.map_or(abs_depth, |m| m.min(abs_depth));
            let class = next(8);
            let (shift, label) = if class < 5 || lowerable >= abs_depth {
                (next(lowerable + 1), "hole whose removed subterm can be lowered by its shift")
            } else {
                expected_solvable = false;
                (lowerable + 1 + next(abs_depth - lowerable), "hole whose removed subterm mentions a variable it cannot reach (scope escape)")
            };
            // Non-linear: reuse an earlier cell when the outer scopes coincide.
            let reuse = if h > 0 && next(4) == 0 { plan.iter().find(|p| base_len + p.depth - p.shift == abs_depth - shift).map(|p| p.cell.clone()) } else { None };
            if reuse.is_some() {
                classes.push("non-linear pattern (one cell at two places)".into());
            }
            let cell = reuse.unwrap_or_else(|| Rc::new(RefCell::new(None)));
            classes.push(format!("{label}{}", if s.depth >= 1 && shift >= 1 { ", under a binder with shift >= 1" } else { "" }));
            plan.push(Punch { index: s.index, cell, shift, depth: s.depth });
        }
        if plan.is_empty() && !near_side {
            return Ok(vec!["skipped: no hole placed".into()]);
        }
        let mut c2 = 0;
        let mut skipped = 0;
        let pattern = punch(&t, &mut c2, &plan, &mut skipped);
        // The other side.
        // "Veiled": one or two subterms of the instance are read through holes that are solved
        // already (content = the subterm lowered by the hole's shift). A solved hole is transparent,
        // so nothing changes for the property; the code paths for solved holes under binders do.
        let veiled: Option<Term> = if side <= 2 && next(3) == 0 {
            let mut vplan: Vec<Punch> = vec![];
            for _ in 0..1 + next(2) {
                let cands: Vec<&Site> = all.iter().filter(|x| x.index > 0 && x.depth >= 1).collect();
                if cands.is_empty() {
                    break;
                }
                let st = cands[next(cands.len())];
                if vplan.iter().any(|p| {
                    let ps = all.iter().find(|x| x.index == p.index).unwrap();
                    (st.index >= ps.index && st.index < ps.index + ps.size) || (ps.index >= st.index && ps.index < st.index + st.size)
                }) {
                    continue;
                }
                let lowerable = st.min_free.map_or(st.depth, |m| m.min(st.depth));
                // mostly the largest shift the subterm admits: its variables then sit just inside
                // the scope the content lives in
                let shift = if next(3) == 0 { next(lowerable + 1) } else { lowerable };
                let Some(sub) = subterm_at(&t, st.index, &mut 0) else { continue };
                let Some(content) = crate::de_bruijn::signed_shift(sub, 0, -(shift as isize)) else { continue };
                vplan.push(Punch { index: st.index, cell: Rc::new(RefCell::new(Some(content))), shift, depth: st.depth });
            }
            if vplan.is_empty() { None } else { Some(punch(&t, &mut 0, &vplan, &mut 0)) }
        } else {
            None
        };
        let (other, side_label): (Term, &str) = match side {
            0..=2 if veiled.is_some() => (veiled.unwrap(), "the term the pattern was cut from, read through holes that are solved already"),
            6 | 7 if near_side && group.is_none() => (near_full.clone().unwrap(), "a near miss of that term (one point changed, or a group one definition longer / shorter)"),
            0..=2 => (t.clone(), "the term the pattern was cut from"),
            3 => match if group.is_none() { crate::evaluator::step(&t) } else { None } {
                Some(r) => (r, "a reduct of that term"),
                None => (t.clone(), "the term the pattern was cut from"),
            },
            4 if group.is_none() => (other_full.clone(), "an unrelated term"),
            _ => {
                // Another pattern over the same term with one different hole.
                let s = &all[next(all.len())];
                let plan2 = vec![Punch { index: s.index, cell: Rc::new(RefCell::new(None)), shift: 0, depth: s.depth }];
                let mut c3 = 0;
                let mut sk = 0;
                (punch(&t, &mut c3, &plan2, &mut sk), "another pattern over the same term")
            }
        };
        let flip = next(2) == 1;
        let shown = format!("unify({}, {})   [pattern `{pattern}` vs {side_label} `{other}`{}]", if flip { "other" } else { "pattern" }, if flip { "pattern" } else { "other" }, if group.is_some() { ", under the definitions of the enclosing group" } else { "" });
        let fail = |m: String| Failure::new(m, format!("{text_a}   ::   {shown}"));
        let before = dctx.len();
        let copies_before = crate::de_bruijn::VERIF_UNRESOLVED_UNIFIERS_OPENED.with(std::cell::Cell::get);
        let ok = if flip { unify(&other, &pattern, &mut dctx) } else { unify(&pattern, &other, &mut dctx) };
        let hole_copied = crate::de_bruijn::VERIF_UNRESOLVED_UNIFIERS_OPENED.with(std::cell::Cell::get) > copies_before;
        if dctx.len() != before {
            return Err(fail("unify left the definitions context with a different length".into()));
        }
        classes.push(format!("other side: {side_label}"));
        if !ok {
            classes.push(if expected_solvable && side <= 2 { "first-order solvable pattern vs its own instance: unify said false".into() } else { "unify said false (nothing demanded)".into() });
            return Ok(classes);
        }
        classes.push("unify said true; solution checked".into());
        // (1) No solved cell reachable from its own content.
        let mut cells = vec![];
        cells_in(&pattern, &mut cells);
        cells_in(&other, &mut cells);
        for c in &cells {
            if cyclic(c, &mut vec![]) {
                return Err(fail("unification succeeded with a hole that is solved by a term containing itself".into()));
            }
        }
        // (2) Every solution mentions only variables in scope where its hole was written.
        for p in &plan {
            let content = p.cell.borrow().clone();
            if let Some(content) = content {
                let mut fv = BTreeSet::new();
                D::from_gram(&content).free(0, &mut fv);
                let scope = base_len + p.depth - p.shift;
                if let Some(bad) = fv.iter().find(|i| **i >= scope) {
                    return Err(fail(format!("the hole at depth {} with shift {} was solved by `{content}`, which mentions index {bad} while only {scope} variable(s) are in scope there", base_len + p.depth, p.shift)));
                }
            }
        }
        // (3) With the solutions filled in, the two sides are definitionally equal.
        let (c1, c2) = (close_with(group.as_ref(), pattern.clone()), close_with(group.as_ref(), other.clone()));
        let mut names = Names::default();
        let (k1, k2) = match (core::from_gram(&c1, &mut vec![], &mut names), core::from_gram(&c2, &mut vec![], &mut names)) {
            (Ok(a), Ok(b)) => (a, b),
            (Err(e), _) | (_, Err(e)) => return Err(fail(format!("after unification a side is not well scoped: {e}"))),
        };
        let mut nbe = Nbe::new(300_000);
        let same = (|| {
            let v1 = nbe.eval(&k1, &None).ok()?;
            let v2 = nbe.eval(&k2, &None).ok()?;
            nbe.conv(&v1, &v2).ok()
        })();
        match same {
            Some(true) => {}
            Some(false) => {
                let f = fail(format!("unification succeeded, but with the solutions filled in the sides are `{c1}` and `{c2}`, which are not definitionally equal"));
                // The recorded finding: `open` copied an unresolved hole during this call, so the
                // solution went to the copy.
                return Err(if hole_copied { f.with_sig(SIG_HOLE_IDENTITY) } else { f });
            }
            None => classes.push("inconclusive: reference conversion ran out of fuel".into()),
        }
        Ok(classes)
    });
    match r {
        Err(p) => Err(Failure::new(format!("panic: {p}"), input_base).with_sig("panic")),
        Ok(Err(f)) => Err(f),
        Ok(Ok(classes)) => {
            let nontrivial = classes.iter().any(|c| c.contains("under a binder with shift >= 1") || c.contains("non-linear") || c.contains("scope escape") || c.contains("near miss") || c.contains("solved already"));
            for c in &classes {
                if c.starts_with("inconclusive") {
                    ctx.inconclusive(c);
                } else {
                    ctx.class(c);
                }
            }
            if nontrivial && classes.iter().any(|c| c.starts_with("unify said")) {
                ctx.nontrivial(&format!("{input_base} :: {}", classes.join("; ")));
            }
            Ok(())
        }
    }
}

/// Occurs-check shapes: `?h` against `C[?h]`, and chains `?h1 := ?h2`, `?h2` against `C[?h1]`.
fn occurs_case(ctx: &Ctx, ch: &mut Ch) -> Outcome {
    let choices: Vec<usize> = (0..12).map(|_| ch.raw() as usize).collect();
    let r: Result<Result<&'static str, Failure>, String> = catch(|| {
        let t = |v: Variant<'static>| Term { source_range: None, variant: v };
        let h1: Cell<'static> = Rc::new(RefCell::new(None));
        let h2: Cell<'static> = Rc::new(RefCell::new(None));
        let hole = |c: &Cell<'static>, s: usize| Rc::new(t(Variant::Unifier(c.clone(), s)));
        let int = || Rc::new(t(Variant::Integer));
        let chain = choices[0] % 2 == 0;
        if chain {
            *h1.borrow_mut() = Some(t(Variant::Unifier(h2.clone(), 0)));
        }
        let inner = if chain { hole(&h1, 0) } else { hole(&h1, 0) };
        let target = if chain { &h2 } else { &h1 };
        let ctxs = choices[1] % 7;
        let wrapped = match ctxs {
            0 => t(Variant::Pi("x", false, int(), inner)),
            1 => t(Variant::Pi("x", false, inner, int())),
            2 => t(Variant::Application(Rc::new(t(Variant::Variable("f", 0))), inner)),
            3 => t(Variant::Sum(inner, Rc::new(t(Variant::IntegerLiteral(1.into()))))),
            4 => t(Variant::Lambda("x", false, int(), inner)),
            5 => t(Variant::If(Rc::new(t(Variant::Variable("b", 0))), inner, int())),
            _ => t(Variant::Negation(inner)),
        };
        let bare = t(Variant::Unifier(target.clone(), 0));
        // One free variable is in scope for the `f` / `b` heads.
        let mut dctx = vec![None];
        let flip = choices[2] % 2 == 1;
        // Printed before the call: afterwards the terms may be cyclic. The call terminates on a
        // correct unifier (the occurs check refuses it), so an abort is a violation.
        let input = format!("unify({}, {}) with hole chain = {chain}", if flip { &wrapped } else { &bare }, if flip { &bare } else { &wrapped });
        ctx.announce(true, None, &input);
        let ok = if flip { unify(&wrapped, &bare, &mut dctx) } else { unify(&bare, &wrapped, &mut dctx) };
        if dctx.len() != 1 {
            return Err(Failure::new("unify left the definitions context with a different length", input));
        }
        if ok {
            for c in [&h1, &h2] {
                if cyclic(c, &mut vec![]) {
                    return Err(Failure::new("unification of a hole with a term containing it succeeded and left a cyclic solution", input));
                }
            }
            return Ok("occurs shape: unify said true without creating a cycle");
        }
        Ok("occurs shape: rejected")
    });
    match r {
        Err(p) => Err(Failure::new(format!("panic: {p}"), "occurs-check shape").with_sig("panic")),
        Ok(Err(f)) => Err(f),
        Ok(Ok(class)) => {
            ctx.class(class);
            ctx.nontrivial(&format!("occurs {:?}", &choices[..3]));
            Ok(())
        }
    }
}

/// A hole that was solved where `l0` abstract variables were in scope occurs again, with shift
/// `s`, after `s` more context entries - some of them definitions - were pushed. Read there, it
/// denotes its solution shifted by `s`: it unifies with exactly that, and (being an abstract
/// variable) with neither `int` nor `bool`, whatever the definitions in between are.
fn solved_hole_case(ctx: &Ctx, ch: &mut Ch) -> Outcome {
    let l0 = 1 + ch.pick(3);
    let s = 1 + ch.pick(3);
    let k = ch.pick(l0);
    let defs: Vec<usize> = (0..s).map(|_| ch.pick(4)).collect();
    let flip = ch.chance(1, 2);
    let which = ch.pick(3);
    let input = format!("context: {l0} abstract variable(s), then {:?}; hole solved by variable #{k} there, read with shift {s}; compared with {}{}", defs.iter().map(|d| ["an abstract variable", "x = int", "x = bool", "x = the variable before it"][*d]).collect::<Vec<_>>(), ["its shifted solution", "int", "bool"][which], if flip { " (sides swapped)" } else { "" });
    ctx.announce(true, None, &input);
    let r: Result<Result<&'static str, Failure>, String> = catch(|| {
        let t = |v: Variant<'static>| Term { source_range: None, variant: v };
        let mut dctx: Vec<Option<(Rc<Term<'static>>, usize)>> = vec![None; l0];
        for d in &defs {
            dctx.push(match d {
                0 => None,
                1 => Some((Rc::new(t(Variant::Integer)), 1)),
                2 => Some((Rc::new(t(Variant::Boolean)), 1)),
                // A definition is scoped in the context up to and including itself (offset 1):
                // index 1 is the entry before it.
                _ => Some((Rc::new(t(Variant::Variable("v", 1))), 1)),
            });
        }
        let cell: Cell<'static> = Rc::new(RefCell::new(Some(t(Variant::Variable("a", k)))));
        let read = t(Variant::Unifier(cell.clone(), s));
        let other = match which {
            0 => t(Variant::Variable("a", k + s)),
            1 => t(Variant::Integer),
            _ => t(Variant::Boolean),
        };
        let before = dctx.len();
        let ok = if flip { unify(&other, &read, &mut dctx) } else { unify(&read, &other, &mut dctx) };
        if dctx.len() != before {
            return Err(Failure::new("unify left the definitions context with a different length", input.clone()));
        }
        match (which, ok) {
            (0, false) => Err(Failure::new("a solved hole read under more binders does not unify with its own solution shifted accordingly", input.clone())),
            (1 | 2, true) => Err(Failure::new("a solved hole whose solution is an abstract variable unifies with a base type (the solution was looked up in the wrong scope)", input.clone())),
            (0, true) => Ok("solved hole under definitions: equals its shifted solution"),
            _ => Ok("solved hole under definitions: differs from a base type"),
        }
    });
    match r {
        Err(p) => Err(Failure::new(format!("panic: {p}"), input).with_sig("panic")),
        Ok(Err(f)) => Err(f),
        Ok(Ok(class)) => {
            ctx.class(class);
            if defs.iter().any(|d| *d != 0) {
                ctx.nontrivial(&input);
            }
            Ok(())
        }
    }
}

pub const SIG_CHAIN: &str = "solution-escapes-scope-through-a-later-solved-hole";

/// Two successive calls: first `?h1` (written `s1` binders below the scope its content lives in) is
/// solved by a term that contains another unsolved hole `?h2` under `k` more binders; then `?h2` is
/// solved by a variable. After each successful call every solved hole's content, read through the
/// chain, may mention only variables of its own scope.
fn chained_case(ctx: &Ctx, ch: &mut Ch) -> Outcome {
    let d1 = 1 + ch.pick(3);
    let s1 = 1 + ch.pick(d1);
    let k = 1 + ch.pick(2);
    let j = ch.pick(k + d1);
    // The inner hole's own shift: below k it is the case of the recorded finding (the hole is
    // copied unchanged); at or above k the lowering has to adjust or refuse it.
    let s2 = ch.pick(d1 + k + 1);
    let r: Result<Result<&'static str, Failure>, String> = catch(|| {
        let t = |v: Variant<'static>| Term { source_range: None, variant: v };
        let int = || Rc::new(t(Variant::Integer));
        let lams = |n: usize, inner: Term<'static>| {
            let mut acc = inner;
            for _ in 0..n {
                acc = t(Variant::Lambda("b", false, int(), Rc::new(acc)));
            }
            acc
        };
        let h1: Cell<'static> = Rc::new(RefCell::new(None));
        let h2: Cell<'static> = Rc::new(RefCell::new(None));
        let p1 = lams(d1, t(Variant::Unifier(h1.clone(), s1)));
        let p2 = lams(d1 + k, t(Variant::Unifier(h2.clone(), s2)));
        let p3 = lams(d1 + k, t(Variant::Variable("b", j)));
        let input = format!("d1={d1} s1={s1} k={k} j={j} s2={s2}: unify({p1}, {p2}) then unify({p2}, {}) with the variable at index {j}", p3);
        let scope_ok = |cell: &Cell<'static>, scope: usize| -> Option<usize> {
            let c = cell.borrow().clone()?;
            let mut fv = BTreeSet::new();
            D::from_gram(&c).free(0, &mut fv);
            fv.iter().copied().find(|i| *i >= scope)
        };
        // With the solutions read in, two successfully unified sides must be convertible.
        let equal_now = |a: &Term<'static>, b: &Term<'static>| -> Option<bool> {
            let mut names = Names::default();
            let ka = core::from_gram(a, &mut vec![], &mut names).ok()?;
            let kb = core::from_gram(b, &mut vec![], &mut names).ok()?;
            let mut nbe = Nbe::new(50_000);
            let va = nbe.eval(&ka, &None).ok()?;
            let vb = nbe.eval(&kb, &None).ok()?;
            nbe.conv(&va, &vb).ok()
        };
        if !unify(&p1, &p2, &mut vec![]) {
            return Ok("chained: first unification refused");
        }
        if equal_now(&p1, &p2) == Some(false) {
            return Err(Failure::new(format!("the first call succeeded but the sides now read `{p1}` and `{p2}`, which are not definitionally equal"), input));
        }
        if let Some(bad) = scope_ok(&h1, d1 - s1) {
            return Err(Failure::new(format!("after the first call the solution of ?h1 mentions index {bad} with only {} variable(s) in scope", d1 - s1), input));
        }
        if !unify(&p2, &p3, &mut vec![]) {
            return Ok("chained: second unification refused");
        }
        if cyclic(&h1, &mut vec![]) || cyclic(&h2, &mut vec![]) {
            return Err(Failure::new("cyclic solution", input));
        }
        // The variable must be in the inner hole's own scope, or the second call had to refuse.
        if let Some(bad) = scope_ok(&h2, (d1 + k).saturating_sub(s2)) {
            return Err(Failure::new(format!("the second call solved ?h2 (written with shift {s2} at depth {}) by a term mentioning index {bad}", d1 + k), input));
        }
        if s2 >= k && (equal_now(&p2, &p3) == Some(false) || equal_now(&p1, &p2) == Some(false)) {
            return Err(Failure::new(format!("both calls succeeded but the sides now read `{p1}`, `{p2}` and `{p3}`, which are not all definitionally equal"), input));
        }
        if let Some(bad) = scope_ok(&h1, d1 - s1) {
            let f = Failure::new(
                format!("after the second successful call the solution of ?h1 reads `{}`: it mentions index {bad}, but ?h1 was written where only {} variable(s) are in scope", D::from_gram(&h1.borrow().clone().unwrap()).show(), d1 - s1),
                input,
            );
            // The recorded finding is the case in which the inner hole was copied unchanged.
            return Err(if s2 < k { f.with_sig(SIG_CHAIN) } else { f });
        }
        Ok("chained: both unifications succeeded with well-scoped solutions")
    });
    match r {
        Err(p) => Err(Failure::new(format!("panic: {p}"), "chained").with_sig("panic")),
        Ok(Err(f)) => Err(f),
        Ok(Ok(class)) => {
            ctx.class(class);
            ctx.nontrivial(&format!("chained d1={d1} s1={s1} k={k} j={j}"));
            Ok(())
        }
    }
}

pub fn def(tier: Tier) -> CheckDef {
    let rounds = tier.pick(60, 600);
    CheckDef {
        id: "C12",
        level: "exploration",
        rule: "patterns made from closed, fully annotated, type-directed generated programs (no recursion) by replacing 1-4 disjoint subterms at arbitrary positions and binder depths with holes `Unifier(cell, shift)`: shift chosen so that the removed subterm can be lowered by it (solvable), or cannot (scope escape), one cell used at two places whose outer scopes coincide (non-linear), in both argument orders, against the original term, a reduct, an unrelated term of the same kind of type, or another pattern; with and without a definitions context (the enclosing group's definitions with their offsets); plus occurs-check shapes `?h` vs `C[?h]` for seven constructor contexts, directly and through a chain of solved holes; and two-call histories in which a hole is first solved by a term containing a second hole that a later call solves by a variable; oracle when unify returns true: no solved cell is reachable from its own content, every solution's free indices are below (scope length at the hole - shift) for every occurrence, and the two sides with the solutions read in are convertible by NbE; the definitions context keeps its length; non-trivial = a hole under a binder with shift >= 1, a non-linear, scope-escape or occurs shape; the evidence reports how often solvable first-order patterns unify with their own instance; distinct by text and classes; plus a hole solved by an abstract variable and read again, with shift s, after s more context entries (abstract variables or definitions `= int`, `= bool`, `= the variable before`) were pushed: it must unify with its shifted solution and with neither base type",
        assumptions: vec!["when unify returns false nothing is demanded (higher-order and non-pattern cases are legitimately given up)"],
        idle_limit_s: 120,
        needs_cli: false,
        fuzz: None,
        parts: vec![
            Part {
                name: "patterns",
                rounds,
                run: Box::new(|ctx, r| ctx.prop("patterns", r, 400, 700, pattern_case)),
                replay: Some(Box::new(|ctx, inp| match inp {
                    ReplayInput::Choices(c) => pattern_case(ctx, &mut Ch::new(c)),
                    _ => Err(Failure::new("this part replays from choices", "")),
                })),
            },
            Part {
                name: "chained",
                rounds: 1,
                run: Box::new(|ctx, r| ctx.prop("chained", r, 200, 8, chained_case)),
                replay: Some(Box::new(|ctx, inp| match inp {
                    ReplayInput::Choices(c) => chained_case(ctx, &mut Ch::new(c)),
                    _ => Err(Failure::new("this part replays from choices", "")),
                })),
            },
            Part {
                name: "solved-hole",
                rounds: 1,
                run: Box::new(|ctx, r| ctx.prop("solved-hole", r, 400, 24, solved_hole_case)),
                replay: Some(Box::new(|ctx, inp| match inp {
                    ReplayInput::Choices(c) => solved_hole_case(ctx, &mut Ch::new(c)),
                    _ => Err(Failure::new("this part replays from choices", "")),
                })),
            },
            Part {
                name: "occurs",
                rounds: 1,
                run: Box::new(|ctx, r| ctx.prop("occurs", r, 200, 16, occurs_case)),
                replay: Some(Box::new(|ctx, inp| match inp {
                    ReplayInput::Choices(c) => occurs_case(ctx, &mut Ch::new(c)),
                    _ => Err(Failure::new("this part replays from choices", "")),
                })),
            },
        ],
    }
}
