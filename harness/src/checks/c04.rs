//! C04 — A program's value inhabits the type reported for the program.

use crate::gens::prog::{self, ProgCfg};
use crate::pipe::{self, Eval, Front};
use crate::refs::core::{self, Names, Tc, TcErr, V};
use crate::runner::{CheckDef, Ctx, Failure, Outcome, Part, ReplayInput, Tier};
use crate::sast;
use crate::term::{Term, Variant};
use crate::typed;
use crate::util::Ch;
use std::rc::Rc;

pub const SIG_HOLE_IDENTITY: &str = "hole-identity-lost-under-substitution";

enum Res {
    NotAccepted,
    NoValue(&'static str),
    Hole,
    Fuel,
    Ok { steps: u64, type_shape: &'static str },
}

/// v : T, judged by shape and by the independent checker.
fn value_has_type(v: &Term, ty: &Term) -> Result<Result<&'static str, &'static str>, String> {
    let mut names = Names::default();
    let kv = core::from_gram(v, &mut vec![], &mut names).map_err(|e| format!("the value is not well scoped: {e}"))?;
    let kt = core::from_gram(ty, &mut vec![], &mut names).map_err(|e| format!("the reported type is not well scoped: {e}"))?;
    if core::has_hole(&kv) || core::has_hole(&kt) {
        return Ok(Err("hole"));
    }
    let mut tc = Tc::new(names, typed::TC_FUEL);
    let Ok(tv) = tc.nbe.eval(&kt, &None) else { return Ok(Err("fuel")) };
    // (1) Shape.
    let shape = match (&*tv, &v.variant) {
        (V::Int, Variant::IntegerLiteral(_)) => "int",
        (V::Int, _) => return Err(format!("the type is `int` but the value `{v}` is not an integer literal")),
        (V::Bool, Variant::True | Variant::False) => "bool",
        (V::Bool, _) => return Err(format!("the type is `bool` but the value `{v}` is neither `true` nor `false`")),
        (V::Pi(im, _, _), Variant::Lambda(_, im2, _, _)) => {
            if im != im2 {
                return Err(format!("the type's implicit flag is {im} but the function's is {im2}"));
            }
            "function type"
        }
        (V::Pi(..), _) => return Err(format!("the type is a function type but the value `{v}` is not a function")),
        (V::Type, Variant::Type | Variant::Integer | Variant::Boolean | Variant::Pi(..)) => "type",
        (V::Type, _) => return Err(format!("the type is `type` but the value `{v}` is not a type")),
        _ => "other (neutral type)",
    };
    // (2) The independent checker infers a type for the value; it must be convertible with T.
    match tc.infer(&kv, &None, &None) {
        Ok(t) => match tc.nbe.conv(&t, &tv) {
            Ok(true) => Ok(Ok(shape)),
            Ok(false) => {
                let shown = tc.show(&t);
                Err(format!("the value `{}` has type `{shown}`, which is not convertible with the reported type `{ty}`", crate::util::truncate(&v.to_string(), 300)))
            }
            Err(_) => Ok(Err("fuel")),
        },
        Err(TcErr::Ill(rule, why)) => Err(format!("the value `{}` is ill typed — {rule}: {why}", crate::util::truncate(&v.to_string(), 300))),
        Err(TcErr::Hole) => Ok(Err("hole")),
        Err(TcErr::Fuel) => Ok(Err("fuel")),
    }
}

pub fn check_text(ctx: &Ctx, text: &str, budget: u64) -> Result<(), Failure> {
    ctx.announce(false, None, text);
    let r = pipe::with_front(text, |front| -> Result<Res, Failure> {
        let Front::Accepted { elaborated, ty, hole_copies, .. } = front else { return Ok(Res::NotAccepted) };
        match pipe::run_steps(elaborated, budget).map_err(|p| Failure::new(p, text).with_sig("panic"))? {
            Eval::Running(_) => Ok(Res::NoValue("still running at the step budget")),
            Eval::Stuck(..) => Ok(Res::NoValue("stuck (C01's concern)")),
            Eval::Value(v, steps) => match value_has_type(&v, ty) {
                Ok(Ok(shape)) => Ok(Res::Ok { steps, type_shape: shape }),
                Ok(Err("hole")) => Ok(Res::Hole),
                Ok(Err(_)) => Ok(Res::Fuel),
                Err(why) => {
                    let f = Failure::new(format!("reported type `{ty}`: {why}"), text);
                    Err(if *hole_copies > 0 { f.with_sig(SIG_HOLE_IDENTITY) } else { f })
                }
            },
        }
    });
    match r {
        Err(p) => Err(Failure::new(p, text).with_sig("panic")),
        Ok(Err(f)) => Err(f),
        Ok(Ok(res)) => {
            match res {
                Res::NotAccepted => ctx.class("not accepted (outside the domain)"),
                Res::NoValue(why) => ctx.class(&format!("no value: {why}")),
                Res::Hole => ctx.class("value or type contains an unresolved hole (outside the explicit checker's domain)"),
                Res::Fuel => ctx.inconclusive("reference checker ran out of fuel"),
                Res::Ok { steps, type_shape } => {
                    ctx.class(&format!("value inhabits the reported type; type shape: {type_shape}"));
                    if !matches!(type_shape, "int" | "bool") || steps >= 5 {
                        ctx.nontrivial(text);
                    }
                }
            }
            Ok(())
        }
    }
}

fn generated_case(ctx: &Ctx, ch: &mut Ch) -> Outcome {
    let cfg = ProgCfg { forward_aliases: false, ..ProgCfg::default() };
    let kind = [0, 1, 2, 2, 2][ch.pick(5)];
    let fuel = 2 + ch.pick(5);
    let Some(p) = prog::gen_program(ch, cfg, kind, fuel) else {
        ctx.class("generator: gave up");
        return Ok(());
    };
    if p.text.len() > 4000 {
        ctx.class("skipped: longer than 4000 bytes");
        return Ok(());
    }
    let pick = ch.pick(6);
    let s = match if prog::perturbation_safe(&p) || pick < 2 { pick } else { 5 } {
        0 | 1 => {
            let mut erased = 0;
            prog::erase(&p.s, ch, &mut erased).flatten()
        }
        // Perturbed programs: most are rejected; the accepted ones are in the property's domain.
        2 => crate::gens::mutate::perturb(&p.s, ch).0.flatten(),
        3 => crate::gens::mutate::swap_variable(&p.s, ch).unwrap_or_else(|| p.s.clone()).flatten(),
        _ => p.s.clone(),
    };
    let text = sast::print_plain(&s);
    if p.features.contains("parameter captured by a local function before its type is fixed") {
        // (how often the late-typed shape survives erasure: both annotations gone)
        let both = text.contains("late") && !text.contains(" : ") || text.split("late").skip(1).all(|rest| !rest.trim_start_matches(|c: char| c.is_alphanumeric()).trim_start().starts_with(':'));
        ctx.class(if both { "program with a parameter captured by a local function before its type is fixed (its annotations erased)" } else { "program with a parameter captured by a local function before its type is fixed" });
    }
    check_text(ctx, &text, crate::checks::c02::step_budget(ctx.tier))
}

/// "Vanishing dependency": an un-annotated parameter `w` meets, under later binders, a variable
/// whose annotation is a non-normal type that mentions one of those binders and loses it under
/// normalisation (`K T y` with `K = (t : type) => (n : int) => t`): `w` can be given the type `T`,
/// but only the normalised one. The function is then applied to an argument of type `T` or of
/// another type; whatever is accepted must produce a value of the reported type.
fn vanishing_program(ch: &mut Ch) -> String {
    let (t, good, bad) = [("int", "7", "true"), ("bool", "false", "3"), ("int -> int", "((q : int) => q + 1)", "2")][ch.pick(3)];
    let k_inline = "((kt : type) => (kn : int) => kt)";
    let (prefix, k) = if ch.chance(1, 2) { ("konst = (kt : type) => (kn : int) => kt\n".to_owned(), "konst") } else { (String::new(), k_inline) };
    let w = ["w", "(w : _)"][ch.pick(2)];
    let extra = ch.chance(1, 3);
    let dep = if ch.chance(1, 4) { "(y + 1)" } else { "y" };
    let cond = ["y == 0", "true", "false", "y < 1"][ch.pick(4)];
    let (a, b) = if ch.chance(1, 2) { ("z", "w") } else { ("w", "z") };
    let first = if ch.chance(1, 2) { good } else { bad };
    let third = if ch.chance(3, 4) { good } else { bad };
    let mut f = format!("{w} => (y : int) => ");
    let mut args = format!("{first} {}", ch.pick(3));
    if extra {
        f.push_str("(u : bool) => ");
        args.push_str(" true");
    }
    f.push_str(&format!("(z : {k} ({t}) {dep}) => if {cond} then {a} else {b}"));
    args.push_str(&format!(" {third}"));
    let call = format!("({f}) {args}");
    match ch.pick(3) {
        0 => format!("{prefix}{call}"),
        1 => format!("{prefix}r = {call}\nr"),
        _ => format!("{prefix}r : ({t}) = {call}\nr"),
    }
}

/// A directly recursive function that also calls a sibling of *another type* defined after it,
/// the sibling reached only after at least one recursive call; unrelated definitions around.
fn recursive_sibling_program(ch: &mut Ch) -> String {
    let n = 1 + ch.pick(4);
    let k = ch.pick(3);
    let filler = |ch: &mut Ch, i: usize| match ch.pick(3) {
        0 => format!("u{i} : int = {}\n", ch.pick(9)),
        1 => format!("u{i} : (int -> int) = (z{i} : int) => z{i} + {}\n", ch.pick(5)),
        _ => format!("u{i} : bool = {}\n", ["true", "false"][ch.pick(2)]),
    };
    let mut s = String::new();
    if ch.chance(1, 3) {
        s.push_str(&filler(ch, 0));
    }
    let int_result = ch.chance(1, 2);
    if int_result {
        // f : int -> int calls g : int -> bool
        s.push_str(&format!("f : (int -> int) = (n : int) => if n <= 0 then {} else (if g n then 1 else 0) + f (n - 1)\n", ch.pick(3)));
        if ch.chance(1, 3) {
            s.push_str(&filler(ch, 1));
        }
        s.push_str(&format!("g : (int -> bool) = (m : int) => m > {k}\n"));
    } else {
        // f : int -> bool calls g : int -> int
        s.push_str(&format!("f : (int -> bool) = (n : int) => if n <= 0 then {} else if g n > {k} then f (n - 1) else {}\n", ["true", "false"][ch.pick(2)], ["true", "false"][ch.pick(2)]));
        if ch.chance(1, 3) {
            s.push_str(&filler(ch, 1));
        }
        s.push_str("g : (int -> int) = (m : int) => m + 1\n");
    }
    if ch.chance(1, 3) {
        s.push_str(&filler(ch, 2));
    }
    s.push_str(&match ch.pick(3) {
        0 => format!("f {n}"),
        1 => format!("r = f {n}\nr"),
        _ => format!("(h : int -> {}) => h (f {n})", if int_result { "int" } else { "bool" }).replace("(h : int -> int) => h", "((h : int) => h)").replace("(h : int -> bool) => h", "((h : bool) => h)"),
    });
    s
}

fn recursive_sibling_case(ctx: &Ctx, ch: &mut Ch) -> Outcome {
    let text = recursive_sibling_program(ch);
    ctx.class("directed: recursive function calling a later sibling of another type");
    check_text(ctx, &text, crate::checks::c02::step_budget(ctx.tier))
}

fn vanishing_case(ctx: &Ctx, ch: &mut Ch) -> Outcome {
    let text = vanishing_program(ch);
    ctx.class("directed: un-annotated parameter against a type that mentions a later binder which disappears under normalisation");
    check_text(ctx, &text, crate::checks::c02::step_budget(ctx.tier))
}

#[derive(Clone, Copy, PartialEq, Eq, Debug)]
pub enum Base {
    Int,
    Bool,
    Fun,
}

/// Conversion put to use, exhaustively for a small family: a function that returns its argument
/// unchanged is annotated `(b : bool) -> (x : int) -> T1 -> T2` for every pair of type expressions
/// over `b`, `x`, three type-level functions and small definition groups; it is applied to
/// constants and to an inhabitant of `T1` at those constants. `f(declarations, call, T2 at the
/// constants)` is called for the cases of this shard; it returns false to stop. Returns (cases
/// handed out, number of type expressions).
pub fn for_each_coercion(shard: u32, nshards: u32, mut f: impl FnMut(&str, &str, Base) -> bool) -> (u64, usize) {
    use Base as B;
    let base = [("int", B::Int), ("bool", B::Bool), ("int -> int", B::Fun)];
    type Sem = Box<dyn Fn(bool, i64) -> B>;
    let mut tys: Vec<(String, Sem)> = vec![];
    for (n, v) in base {
        tys.push((n.to_owned(), Box::new(move |_, _| v)));
    }
    for (na, va) in base {
        for (nb, vb) in base {
            tys.push((format!("if b then {na} else {nb}"), Box::new(move |b, _| if b { va } else { vb })));
            if na == nb {
                tys.push((format!("if x < 1 then {na} else {nb}"), Box::new(move |_, _| va)));
                continue;
            }
            // Every comparison operator against both constants the function is applied at.
            for c in [0i64, 1] {
                tys.push((format!("if x < {c} then {na} else {nb}"), Box::new(move |_, x| if x < c { va } else { vb })));
                tys.push((format!("if x <= {c} then {na} else {nb}"), Box::new(move |_, x| if x <= c { va } else { vb })));
                tys.push((format!("if x == {c} then {na} else {nb}"), Box::new(move |_, x| if x == c { va } else { vb })));
                tys.push((format!("if x > {c} then {na} else {nb}"), Box::new(move |_, x| if x > c { va } else { vb })));
                tys.push((format!("if x >= {c} then {na} else {nb}"), Box::new(move |_, x| if x >= c { va } else { vb })));
            }
        }
    }
    tys.push(("t b".to_owned(), Box::new(|b, _| if b { B::Int } else { B::Bool })));
    tys.push(("u b".to_owned(), Box::new(|_, _| B::Int)));
    tys.push(("w x".to_owned(), Box::new(|_, x| if x == 0 { B::Bool } else { B::Int })));
    tys.push(("w (x + 0)".to_owned(), Box::new(|_, x| if x == 0 { B::Bool } else { B::Int })));
    tys.push(("t (x < 1)".to_owned(), Box::new(|_, x| if x < 1 { B::Int } else { B::Bool })));
    tys.push(("if b then (if b then int else bool) else bool".to_owned(), Box::new(|b, _| if b { B::Int } else { B::Bool })));
    tys.push(("if b then int else (if b then int else bool)".to_owned(), Box::new(|b, _| if b { B::Int } else { B::Bool })));
    tys.push(("((k : type) => k) (if b then int else bool)".to_owned(), Box::new(|b, _| if b { B::Int } else { B::Bool })));
    // Types that are definition groups, of different lengths, with a common prefix.
    tys.push(("(g1 = int; g1)".to_owned(), Box::new(|_, _| B::Int)));
    tys.push(("(g1 = int; g2 = bool; g1)".to_owned(), Box::new(|_, _| B::Int)));
    tys.push(("(g1 = int; g2 = bool; g2)".to_owned(), Box::new(|_, _| B::Bool)));
    tys.push(("(g1 = int; g2 = bool; g3 = int -> int; g1)".to_owned(), Box::new(|_, _| B::Int)));
    tys.push(("(g1 = int; g2 = bool; g3 = int -> int; g2)".to_owned(), Box::new(|_, _| B::Bool)));
    tys.push(("(g1 = int; g2 = bool; g3 = int -> int; g3)".to_owned(), Box::new(|_, _| B::Fun)));
    tys.push(("(g1 = int; g2 = if b then g1 else bool; g2)".to_owned(), Box::new(|b, _| if b { B::Int } else { B::Bool })));
    let mut idx = 0u64;
    let mut total = 0u64;
    'all: for (t1, sem1) in &tys {
        for (t2, sem2) in &tys {
            for cb in [true, false] {
                for cx in [0i64, 1] {
                    idx += 1;
                    if idx % u64::from(nshards) != u64::from(shard) {
                        continue;
                    }
                    let arg = match sem1(cb, cx) {
                        B::Int => "7",
                        B::Bool => "true",
                        B::Fun => "((q : int) => q + 1)",
                    };
                    let decls = format!(
                        "t : (bool -> type) = (c : bool) => if c then int else bool; u : (bool -> type) = (c : bool) => if c then int else int; w : (int -> type) = (n : int) => if n == 0 then bool else int; co : ((b : bool) -> (x : int) -> ({t1}) -> {t2}) = (b : bool) => (x : int) => (v : {t1}) => v; "
                    );
                    let call = format!("co {cb} {cx} {arg}");
                    total += 1;
                    if !f(&decls, &call, sem2(cb, cx)) {
                        break 'all;
                    }
                }
            }
        }
    }
    (total, tys.len())
}

fn coercions_part(ctx: &Ctx) {
    let (total, ntypes) = for_each_coercion(ctx.shard, ctx.nshards, |decls, call, _| {
        let text = format!("{decls}{call}");
        let r = check_text(ctx, &text, 20_000);
        if r.is_err() {
            ctx.settle(r);
            if ctx.peek_violations() >= 6 {
                return false;
            }
        }
        true
    });
    ctx.evaluated(total);
    ctx.exhaustive("coercions");
    ctx.note(&format!("coercions: an identity function annotated `(b : bool) -> (x : int) -> T1 -> T2` for every pair of {ntypes} type expressions (base types, conditionals on b and on x with every comparison operator, applications of three type-level functions, definition groups of different lengths), applied at b in {{true, false}}, x in {{0, 1}} to an inhabitant of T1"));
}

const REGRESSIONS: [&str; 5] = [
    "t = int; x : t = 3; x",
    "tyf : (bool -> type) = (b : bool) => if b then int else bool; x : tyf false = true; x",
    "id : ((a : type) -> a -> a) = (a : type) => (x : a) => x; id (int -> int) ((n : int) => n + 1)",
    "((f : int -> _) => f 1 + 1) ((x : int) => true)",
    "(a : type) => (x : a) => x",
];

pub fn def(tier: Tier) -> CheckDef {
    let rounds = tier.pick(6, 100);
    CheckDef {
        id: "C04",
        level: "exploration",
        rule: "directed groups in which a directly recursive function calls a later sibling of another type (reached after at least one recursive call, unrelated definitions around), directed programs in which an un-annotated parameter meets a variable whose written type mentions a later binder that disappears under normalisation (the function then applied at the right and at a wrong type), and type-directed generated programs (plain, annotation-erased, and perturbed by one type-breaking mutation or variable swap - the accepted ones count) over result types int, bool, type, non-dependent and dependent function types, types produced by type-level functions and conditionals, and types mentioning definition groups; each accepted program is run with gram's `step` loop and the value v and the reported type T are compared: by shape (int => literal, bool => true/false, function type => function with the same implicit flag, type => a type former) and by the independent checker (R-core infers a type for v, which must be convertible with T); plus (exhaustive) an identity function annotated `(b : bool) -> (x : int) -> T1 -> T2` for every pair of small type expressions T1, T2 and applied at constants: conversion between computed types put to use; non-trivial = T is not a bare base type, or evaluation took >= 5 steps; distinct by text",
        assumptions: vec!["values or types that still contain unresolved holes are outside the explicit checker's domain (counted, not judged)"],
        idle_limit_s: 60,
        needs_cli: false,
        fuzz: None,
        parts: vec![
            Part {
                name: "regressions",
                rounds: 1,
                run: Box::new(|ctx, _| {
                    if ctx.shard != 0 {
                        return;
                    }
                    for src in REGRESSIONS {
                        ctx.evaluated(1);
                        let r = check_text(ctx, src, 20_000);
                        ctx.settle(r);
                    }
                }),
                replay: None,
            },
            Part {
                name: "coercions",
                rounds: 1,
                run: Box::new(|ctx, _| coercions_part(ctx)),
                replay: None,
            },
            Part {
                name: "recursive-siblings",
                rounds: 1,
                run: Box::new(|ctx, r| ctx.prop("recursive-siblings", r, 150, 30, recursive_sibling_case)),
                replay: Some(Box::new(|ctx, inp| match inp {
                    ReplayInput::Choices(c) => recursive_sibling_case(ctx, &mut Ch::new(c)),
                    _ => Err(Failure::new("this part replays from choices", "")),
                })),
            },
            Part {
                name: "vanishing-dependency",
                rounds: 1,
                run: Box::new(|ctx, r| ctx.prop("vanishing-dependency", r, 300, 30, vanishing_case)),
                replay: Some(Box::new(|ctx, inp| match inp {
                    ReplayInput::Choices(c) => vanishing_case(ctx, &mut Ch::new(c)),
                    _ => Err(Failure::new("this part replays from choices", "")),
                })),
            },
            Part {
                name: "generated",
                rounds,
                run: Box::new(|ctx, r| ctx.prop("generated", r, 400, 600, generated_case)),
                replay: Some(Box::new(|ctx, inp| match inp {
                    ReplayInput::Choices(c) => generated_case(ctx, &mut Ch::new(c)),
                    _ => Err(Failure::new("this part replays from choices", "")),
                })),
            },
        ],
    }
}
