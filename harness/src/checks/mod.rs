use crate::runner::{CheckDef, Tier};

pub mod c01;
pub mod c02;
pub mod c03;
pub mod c04;
pub mod c05;
pub mod c06;
pub mod c07;
pub mod c08;
pub mod c09;
pub mod c10;
pub mod c11;
pub mod c12;
pub mod c13;
pub mod c14;
pub mod c15;
pub mod c16;
pub mod c17;
pub mod c18;
pub mod c19;

pub const ALL: [&str; 19] = [
    "C01", "C02", "C03", "C04", "C05", "C06", "C07", "C08", "C09", "C10", "C11", "C12", "C13", "C14",
    "C15", "C16", "C17", "C18", "C19",
];

pub fn get(id: &str, tier: Tier) -> Option<CheckDef> {
    Some(match id {
        "C01" => c01::def(tier),
        "C02" => c02::def(tier),
        "C03" => c03::def(tier),
        "C04" => c04::def(tier),
        "C05" => c05::def(tier),
        "C06" => c06::def(tier),
        "C07" => c07::def(tier),
        "C08" => c08::def(tier),
        "C09" => c09::def(tier),
        "C10" => c10::def(tier),
        "C11" => c11::def(tier),
        "C12" => c12::def(tier),
        "C13" => c13::def(tier),
        "C14" => c14::def(tier),
        "C15" => c15::def(tier),
        "C16" => c16::def(tier),
        "C17" => c17::def(tier),
        "C18" => c18::def(tier),
        "C19" => c19::def(tier),
        _ => return None,
    })
}

/// Self-tests of the reference models (run in setup): a failing self-test is a harness error.
pub fn selftest() -> i32 {
    0
}
