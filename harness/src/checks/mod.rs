use crate::runner::{CheckDef, Tier};

pub mod c01;
pub mod c02;
pub mod c03;
pub mod c04;
pub mod c05;
pub mod c06;
pub mod c07;
pub mod c08;
pub mod c09;
pub mod c10;
pub mod c11;
pub mod c12;
pub mod c13;
pub mod c14;
pub mod c15;
pub mod c16;
pub mod c17;
pub mod c18;
pub mod c19;

pub const ALL: [&str; 19] = [
    "C01", "C02", "C03", "C04", "C05", "C06", "C07", "C08", "C09", "C10", "C11", "C12", "C13", "C14",
    "C15", "C16", "C17", "C18", "C19",
];

pub fn get(id: &str, tier: Tier) -> Option<CheckDef> {
    Some(match id {
        "C01" => c01::def(tier),
        "C02" => c02::def(tier),
        "C03" => c03::def(tier),
        "C04" => c04::def(tier),
        "C05" => c05::def(tier),
        "C06" => c06::def(tier),
        "C07" => c07::def(tier),
        "C08" => c08::def(tier),
        "C09" => c09::def(tier),
        "C10" => c10::def(tier),
        "C11" => c11::def(tier),
        "C12" => c12::def(tier),
        "C13" => c13::def(tier),
        "C14" => c14::def(tier),
        "C15" => c15::def(tier),
        "C16" => c16::def(tier),
        "C17" => c17::def(tier),
        "C18" => c18::def(tier),
        "C19" => c19::def(tier),
        _ => return None,
    })
}

/// Self-tests of the reference models against known answers (run by bin/setup): a failing
/// self-test is a harness error (exit 2), never a verdict about gram.
pub fn selftest() -> i32 {
    use crate::refs::{chart, core, lex, listing};
    use crate::sast;
    use crate::typed::{self, RefEval, RefType, RefValue};
    use num_bigint::BigInt;
    let mut failures: Vec<String> = vec![];
    let mut check = |name: &str, ok: bool| {
        if !ok {
            failures.push(name.to_owned());
        }
    };

    // R-lex.
    let l = lex::lex("iff int2 type_ if -> => == <= >= 007 x٣ # c\n;");
    let kinds: Vec<String> = l.toks.iter().map(|t| t.tok.plain()).collect();
    check("lex: keywords only as whole words, two-character operators", kinds == ["iff", "int2", "type_", "if", "->", "=>", "==", "<=", ">=", "7", "x٣", ";"]);
    check("lex: unexpected symbols", lex::lex("a $ é ٣").unexpected == vec![2, 7]);
    check("lex: decimal", lex::decimal("340282366920938463463374607431768211456") == BigInt::from(u128::MAX) + 1);
    check("lex: line-break rule", lex::expected_stream("a\nb\n+ c\n").map(|t| t.len()) == Some(5));

    // R-chart over the repository's grammar, and the printer.
    let g = chart::load_repo_grammar();
    let parse = |src: &str| {
        let toks = lex::expected_stream(src).expect("self-test source lexes");
        chart::parse_tokens(&g, &toks)
    };
    let (c, s) = parse("1 + 2 * (3 - 4 / 5)");
    check("chart: one derivation for an arithmetic sentence", c == 1);
    check("chart: precedence", s.map(|s| sast::print_plain(&s.unparen())) == Some("1 + 2 * ( 3 - 4 / 5 )".to_owned()));
    let (_, s) = parse("f x y - a - b");
    check(
        "chart: left association",
        matches!(s, Some(sast::S::Bin(sast::Op::Sub, ref l, _)) if matches!(**l, sast::S::Bin(sast::Op::Sub, ref ll, _) if matches!(**ll, sast::S::App(ref f, _) if matches!(**f, sast::S::App(..))))),
    );
    check("chart: non-sentences", parse("(5 else 7)").0 == 0 && parse("x = 1").0 == 0 && parse("a * b -> c").0 == 0);
    check("chart: nullable annotation, flattened lets", matches!(parse("x = 1; y : int = 2; x").1, Some(sast::S::Let { ref defs, .. }) if defs.len() == 2));

    // R-cbv and R-core on explicit programs with known answers.
    let prog = |src: &str| -> sast::S { parse(src).1.expect("self-test program is a sentence").flatten().unparen() };
    let eval_of = |src: &str| {
        let s = prog(src);
        let (_, k, _) = typed::ref_infer(&s, true);
        typed::ref_eval(&k.unwrap(), 5_000_000).0
    };
    check(
        "cbv: factorial 30",
        eval_of("f : (int -> int) = (x : int) => if x == 0 then 1 else x * f (x - 1); f 30")
            == RefEval::Value(RefValue::Int("265252859812191058636308480000000".parse().unwrap())),
    );
    check("cbv: call by value evaluates the argument", eval_of("((x : int) => 7) (1 / 0)") == RefEval::DivisionByZero);
    check("cbv: only the chosen branch", eval_of("if true then 3 else 1 / 0") == RefEval::Value(RefValue::Int(3.into())));
    check("cbv: definitions in order", matches!(eval_of("x : int = y + 1; y : int = 2; x"), RefEval::Stuck(_)));
    for (a, b) in [(7i128, 2i128), (-7, 2), (7, -2), (-7, -2), (0, 5), (i128::from(i64::MAX) * 4, -3)] {
        check("cbv: truncated division agrees with i128", core::truncated_div(&BigInt::from(a), &BigInt::from(b)) == BigInt::from(a / b));
    }
    let ty_of = |src: &str| typed::ref_infer(&prog(src), true);
    let shows = |src: &str, want: &str| {
        let (mut tc, _, r) = ty_of(src);
        match r {
            RefType::Ok(t) => tc.show(&t) == want,
            _ => false,
        }
    };
    check("core: polymorphic identity", shows("id : ((a : type) -> a -> a) = (a : type) => (x : a) => x; id int 3", "int"));
    check("core: dependent result", shows("(a : type) => (x : a) => x", "( a : type ) -> a -> a"));
    check("core: type-level conditional", shows("tyf : (bool -> type) = (b : bool) => if b then int else bool; x : tyf true = 3; x + 1", "int"));
    check("core: forward alias", shows("(y : t = 4; t : type = u; u : type = int; y) + 1", "int"));
    for bad in ["1 + true", "if 3 then 1 else 2", "if true then 1 else false", "5 5", "((x : int) => x) true", "x : bool = 5; x", "(x : 5) => x", "x : 5 = 4; x", "((x : int) -> 5) "] {
        check(&format!("core: rejects {bad}"), matches!(ty_of(bad).2, RefType::Ill(..)));
    }
    check("core: holes are outside the domain", matches!(ty_of("x => x").2, RefType::Hole));

    // R-listing.
    let text = "a = 1\n  é + (b\n    < 2)\n";
    let start = text.find('(').unwrap();
    let end = text.find(')').unwrap() + 1;
    let want = listing::expected(text, start, end);
    check("listing: lines and character columns", want.len() == 2 && want[0].number == 2 && want[0].full == vec![6, 7] && want[1].number == 3 && want[1].core == vec![4, 5, 6, 7]);
    check(
        "listing: parser of printed excerpts",
        listing::parse_listing("2 \u{2502}   é + (b\n  \u{250a}       \u{203e}\u{203e}\n3 \u{2502}     < 2)\n        \u{203e}\u{203e}\u{203e}\u{203e}").is_some_and(|l| l.len() == 2 && l[0].marked == vec![6, 7] && l[1].marked == vec![4, 5, 6, 7]),
    );

    if failures.is_empty() {
        println!("selftest: all reference-model self-tests pass");
        0
    } else {
        for f in &failures {
            eprintln!("harness error: self-test failed: {f}");
        }
        2
    }
}
