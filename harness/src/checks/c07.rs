//! C07 — The parser accepts exactly grammar.y and builds the tree it specifies.

use crate::bridge::{Cmp, classify_parse_errors};
use crate::gens::syn::{SynCfg, SynGen};
use crate::refs::chart::{self, Chart, Grammar, ToS};
use crate::runner::{CheckDef, Ctx, Failure, Outcome, Part, ReplayInput, Tier, catch};
use crate::sast::{self, Def, PLACEHOLDER, S};
use crate::tok::{self, ALL_KINDS, K, Tok};
use crate::util::Ch;
use num_bigint::BigInt;

thread_local! {
    static GRAMMAR: Grammar = chart::load_repo_grammar();
}

pub fn with_grammar<T>(f: impl FnOnce(&Grammar) -> T) -> T {
    GRAMMAR.with(|g| f(g))
}

/// Rename so that scoping cannot fail: binders get distinct fresh names, every use refers to the
/// context variable `c0`.
fn rename_for_scoping(s: &S, n: &mut usize) -> S {
    let mut fresh = |n: &mut usize| {
        *n += 1;
        format!("b{n}")
    };
    let r = |x: &S, n: &mut usize| Box::new(rename_for_scoping(x, n));
    match s {
        S::Var(v) if v == PLACEHOLDER => s.clone(),
        S::Var(_) => S::Var("c0".to_owned()),
        S::Lam { implicit, ann, body, .. } => {
            let ann = ann.as_ref().map(|a| r(a, n));
            let name = fresh(n);
            S::Lam { name, implicit: *implicit, ann, body: r(body, n) }
        }
        S::Pi { name, implicit, dom, cod } => {
            let dom = r(dom, n);
            let name = name.as_ref().map(|_| fresh(n));
            S::Pi { name, implicit: *implicit, dom, cod: r(cod, n) }
        }
        S::App(a, b) => S::App(r(a, n), r(b, n)),
        S::Bin(op, a, b) => S::Bin(*op, r(a, n), r(b, n)),
        S::Neg(a) => S::Neg(r(a, n)),
        S::Paren(a) => S::Paren(r(a, n)),
        S::If(a, b, c) => S::If(r(a, n), r(b, n), r(c, n)),
        S::Let { defs, body } => {
            let names: Vec<String> = defs.iter().map(|_| fresh(n)).collect();
            let defs = defs
                .iter()
                .zip(names)
                .map(|(d, name)| Def { name, ann: d.ann.as_ref().map(|a| rename_for_scoping(a, n)), def: rename_for_scoping(&d.def, n) })
                .collect();
            S::Let { defs, body: r(body, n) }
        }
        other => other.clone(),
    }
}

/// Does the tree contain the shape the property statements leave open (a parenthesised group
/// directly in the body position of a group)?
pub fn has_open_shape(s: &S) -> bool {
    match s {
        S::Let { defs, body } => {
            let direct = {
                let mut b: &S = body;
                let mut paren = false;
                while let S::Paren(inner) = b {
                    paren = true;
                    b = inner;
                }
                paren && matches!(b, S::Let { .. })
            };
            direct
                || defs.iter().any(|d| d.ann.as_ref().is_some_and(has_open_shape) || has_open_shape(&d.def))
                || has_open_shape(body)
        }
        S::Lam { ann, body, .. } => ann.as_ref().is_some_and(|a| has_open_shape(a)) || has_open_shape(body),
        S::Pi { dom, cod, .. } => has_open_shape(dom) || has_open_shape(cod),
        S::App(a, b) | S::Bin(_, a, b) => has_open_shape(a) || has_open_shape(b),
        S::Neg(a) | S::Paren(a) => has_open_shape(a),
        S::If(a, b, c) => has_open_shape(a) || has_open_shape(b) || has_open_shape(c),
        _ => false,
    }
}

#[derive(Debug)]
pub struct Verdict {
    pub sentence: bool,
    pub nontrivial: bool,
    pub class: &'static str,
}

fn show(toks: &[Tok]) -> String {
    toks.iter().map(Tok::plain).collect::<Vec<_>>().join(" ")
}

/// Give every identifier / literal token a payload (kind sequences carry none).
fn concretise(kinds: &[K]) -> Vec<Tok> {
    kinds
        .iter()
        .enumerate()
        .map(|(i, k)| match k {
            K::Identifier => Tok::Ident("c0".to_owned()),
            K::IntegerLiteral => Tok::Lit(BigInt::from(i)),
            K::Terminator => if i % 2 == 0 { Tok::Semi } else { Tok::LineBreak },
            k => Tok::Simple(*k),
        })
        .collect()
}

/// The oracle for one token string.
pub fn check_tokens(g: &Grammar, toks_in: &[Tok]) -> Result<Verdict, Failure> {
    let kinds: Vec<K> = toks_in.iter().map(Tok::kind).collect();
    let mut chart = Chart::new(g, kinds.clone());
    let count = chart.sentence_count();
    let input = show(toks_in);
    if count >= 2 {
        return Err(Failure::new("grammar.y assigns two or more derivations to this token string", input));
    }
    if count == 0 {
        // Not a sentence: the parser must report a syntax error.
        let (text, ranges) = tok::render_plain(toks_in);
        let gt = tok::to_gram(&text, toks_in, &ranges);
        let res = catch(|| crate::parser::parse(None, &text, &gt, &["c0"]).map(|t| t.to_string()));
        return match res {
            Err(p) => Err(Failure::new(format!("parse panicked: {p}"), input).with_sig("panic")),
            Ok(Ok(printed)) => Err(Failure::new(format!("not a sentence of grammar.y, but parse accepted it as `{printed}`"), input)),
            Ok(Err(errs)) => {
                let k = classify_parse_errors(&errs);
                if errs.is_empty() {
                    return Err(Failure::new("parse returned Err with an empty list", input));
                }
                if k.syntax == 0 {
                    return Err(Failure::new(
                        format!("not a sentence of grammar.y, but parse raised only scoping / definition-order diagnostics (it was syntactically accepted): {:?}", errs.iter().map(|e| e.message.lines().next().unwrap_or("").to_owned()).collect::<Vec<_>>()),
                        input,
                    ));
                }
                Ok(Verdict { sentence: false, nontrivial: false, class: "non-sentence rejected" })
            }
        };
    }
    // A sentence: the unique derivation, as a surface tree.
    let n = toks_in.len();
    let tree = chart.derive(g.start, 0, n).expect("counted derivation");
    let s0 = ToS { g, toks: toks_in }.to_s(&tree);
    if has_open_shape(&s0) {
        return Ok(Verdict { sentence: true, nontrivial: false, class: "sentence with a parenthesised group as a group body (shape left open, skipped)" });
    }
    let mut counter = 0;
    let s = rename_for_scoping(&s0, &mut counter).flatten();
    // The printer must reproduce the sentence (self-check of the harness's printer).
    let toks = sast::print_tokens(&s);
    let kinds2: Vec<K> = toks.iter().map(Tok::kind).collect();
    if kinds2 != kinds {
        eprintln!("harness error: printer does not reproduce the sentence {input}: got {}", show(&toks));
        std::process::exit(2);
    }
    // Keep the terminator kinds of the input.
    let toks: Vec<Tok> = toks
        .into_iter()
        .zip(toks_in)
        .map(|(t, orig)| if t.kind() == K::Terminator { orig.clone() } else { t })
        .collect();
    let (text, ranges) = tok::render_plain(&toks);
    let gt = tok::to_gram(&text, &toks, &ranges);
    let res = catch(|| {
        crate::parser::parse(None, &text, &gt, &["c0"]).map(|term| {
            let mut cmp = Cmp::new(&["c0"]);
            let r = cmp.cmp(&term, &s);
            (r, term.to_string())
        })
    });
    let shown = format!("{} (as tokens: {})", text, input);
    match res {
        Err(p) => Err(Failure::new(format!("parse panicked on a sentence: {p}"), shown).with_sig("panic")),
        Ok(Err(errs)) => Err(Failure::new(
            format!("a sentence of grammar.y was rejected: {:?}", errs.iter().map(|e| e.message.lines().next().unwrap_or("").to_owned()).collect::<Vec<_>>()),
            shown,
        )),
        Ok(Ok((Err(diff), printed))) => Err(Failure::new(
            format!("the tree differs from the sentence's derivation: {diff}; parser output prints as `{printed}`"),
            shown,
        )),
        Ok(Ok((Ok(()), _))) => {
            let (ops, groups) = op_classes(&s);
            let nontrivial = ops >= 2 || groups >= 1;
            Ok(Verdict { sentence: true, nontrivial, class: "sentence parsed to its derivation" })
        }
    }
}

/// (number of distinct precedence classes of operators used, number of explicit groups).
fn op_classes(s: &S) -> (usize, usize) {
    fn walk(s: &S, classes: &mut [bool; 8], groups: &mut usize) {
        match s {
            S::Paren(a) => {
                *groups += 1;
                walk(a, classes, groups);
            }
            S::App(a, b) => {
                classes[1] = true;
                walk(a, classes, groups);
                walk(b, classes, groups);
            }
            S::Bin(_, a, b) => {
                classes[s.level() as usize] = true;
                walk(a, classes, groups);
                walk(b, classes, groups);
            }
            S::Neg(a) => {
                classes[3] = true;
                walk(a, classes, groups);
            }
            S::Lam { ann, body, .. } => {
                classes[6] = true;
                if let Some(a) = ann {
                    walk(a, classes, groups);
                }
                walk(body, classes, groups);
            }
            S::Pi { dom, cod, .. } => {
                classes[6] = true;
                walk(dom, classes, groups);
                walk(cod, classes, groups);
            }
            S::If(a, b, c) => {
                classes[6] = true;
                walk(a, classes, groups);
                walk(b, classes, groups);
                walk(c, classes, groups);
            }
            S::Let { defs, body } => {
                classes[7] = true;
                for d in defs {
                    if let Some(a) = &d.ann {
                        walk(a, classes, groups);
                    }
                    walk(&d.def, classes, groups);
                }
                walk(body, classes, groups);
            }
            _ => {}
        }
    }
    let mut c = [false; 8];
    let mut g = 0;
    walk(s, &mut c, &mut g);
    (c.iter().filter(|x| **x).count(), g)
}

fn enumerate_part(ctx: &Ctx, max_len: usize) {
    with_grammar(|g| {
        let a = ALL_KINDS.len() as u64;
        let mut sentences = 0u64;
        let mut total = 0u64;
        for len in 0..=max_len {
            let count = a.pow(len as u32);
            let mut idx = u64::from(ctx.shard);
            while idx < count {
                let mut x = idx;
                let kinds: Vec<K> = (0..len)
                    .map(|_| {
                        let k = ALL_KINDS[(x % a) as usize];
                        x /= a;
                        k
                    })
                    .collect();
                let toks = concretise(&kinds);
                total += 1;
                match check_tokens(g, &toks) {
                    Ok(v) => {
                        if v.sentence {
                            sentences += 1;
                        }
                        if v.nontrivial {
                            ctx.nontrivial_enumerated(|| show(&toks));
                        }
                    }
                    Err(f) => {
                        ctx.settle(Err(f));
                        if ctx.peek_violations() >= 8 {
                            return;
                        }
                    }
                }
                idx += u64::from(ctx.nshards);
            }
        }
        ctx.evaluated(total);
        ctx.class_n("enumerated token strings", total);
        ctx.class_n("enumerated token strings that are sentences", sentences);
        ctx.exhaustive("enum-tokens");
        ctx.note(&format!("enum-tokens: every token string of length <= {max_len} over the 28 token kinds"));
    });
}

pub fn gen_sentence(ch: &mut Ch) -> S {
    let fuel = 1 + ch.pick(4);
    let cfg = SynCfg { paren_16: 3, holes: true, omit_annotations: true, ..SynCfg::default() };
    let mut g = SynGen::new(ch, cfg, &[]);
    g.term(fuel).flatten()
}

fn sentence_case(ctx: &Ctx, ch: &mut Ch) -> Outcome {
    let s = gen_sentence(ch);
    let toks = sast::print_tokens(&s);
    if toks.len() > 90 {
        ctx.class("skipped: more than 90 tokens");
        return Ok(());
    }
    with_grammar(|g| {
        // Self-check: the chart parser reads the printed tokens back as the same tree.
        let (count, back) = chart::parse_tokens(g, &toks);
        if count != 1 {
            return Err(Failure::new(
                format!("the printed tree has {count} derivations in grammar.y (harness printer or grammar ambiguity)"),
                show(&toks),
            ));
        }
        let back = back.unwrap();
        if back.flatten().unparen() != s.unparen() {
            eprintln!("harness error: chart parser reads {} back as a different tree:\n  {:?}\n  {:?}", show(&toks), s, back);
            std::process::exit(2);
        }
        let v = check_tokens(g, &toks)?;
        ctx.class(v.class);
        if v.nontrivial {
            ctx.nontrivial(&show(&toks));
        }
        Ok(())
    })
}

/// Trees made of one or two operator classes only (application, `* /`, `+ -`, unary minus), nested
/// to depth 4 with occasional redundant parentheses: the shapes on which association and the
/// honouring of parentheses depend.
fn gen_chain(ch: &mut Ch, classes: &[usize], depth: usize) -> S {
    use crate::sast::Op;
    let leaf = |ch: &mut Ch| match ch.pick(3) {
        0 => S::Var("c0".to_owned()),
        _ => S::Lit(BigInt::from(ch.pick(9))),
    };
    if depth == 0 || ch.chance(1, 4) {
        return leaf(ch);
    }
    let class = classes[ch.pick(classes.len())];
    let a = gen_chain(ch, classes, depth - 1);
    let b = gen_chain(ch, classes, depth - 1);
    let node = match class {
        0 => S::App(Box::new(a), Box::new(b)),
        1 => S::Bin([Op::Mul, Op::Div][ch.pick(2)], Box::new(a), Box::new(b)),
        2 => S::Bin([Op::Add, Op::Sub][ch.pick(2)], Box::new(a), Box::new(b)),
        _ => S::Neg(Box::new(a)),
    };
    if ch.chance(1, 6) { S::Paren(Box::new(node)) } else { node }
}

fn chain_case(ctx: &Ctx, ch: &mut Ch) -> Outcome {
    let classes: Vec<usize> = match ch.pick(7) {
        0 => vec![0],
        1 => vec![1],
        2 => vec![2],
        3 => vec![1, 2],
        4 => vec![0, 1],
        5 => vec![1, 3],
        _ => vec![0, 1, 2, 3],
    };
    let depth = 2 + ch.pick(3);
    let s = gen_chain(ch, &classes, depth);
    let toks = sast::print_tokens(&s);
    if toks.len() > 90 {
        return Ok(());
    }
    with_grammar(|g| {
        let v = check_tokens(g, &toks)?;
        ctx.class("operator-chain sentence parsed to its derivation");
        if v.nontrivial {
            ctx.nontrivial(&show(&toks));
        }
        Ok(())
    })
}

fn mutate(ch: &mut Ch, toks: &[Tok]) -> Vec<Tok> {
    let mut t = toks.to_vec();
    let edits = 1 + ch.pick(2);
    for _ in 0..edits {
        let random_tok = |ch: &mut Ch| {
            let k = ALL_KINDS[ch.pick(ALL_KINDS.len())];
            match k {
                K::Identifier => Tok::Ident("c0".to_owned()),
                K::IntegerLiteral => Tok::Lit(BigInt::from(7)),
                K::Terminator => Tok::Semi,
                k => Tok::Simple(k),
            }
        };
        match ch.pick(5) {
            4 => {
                // A matching pair of round brackets dropped (the printer writes only the brackets
                // the grammar needs, so what is left is a near miss two tokens away: a form in a
                // position that does not admit it, or a different sentence).
                let mut stack = vec![];
                let mut pairs = vec![];
                for (i, x) in t.iter().enumerate() {
                    match x.kind() {
                        K::LeftParen => stack.push(i),
                        K::RightParen => {
                            if let Some(o) = stack.pop() {
                                pairs.push((o, i));
                            }
                        }
                        _ => {}
                    }
                }
                if !pairs.is_empty() {
                    let (o, c) = pairs[ch.pick(pairs.len())];
                    t.remove(c);
                    t.remove(o);
                }
            }
            0 if !t.is_empty() => {
                let p = ch.pick(t.len());
                t.remove(p);
            }
            1 => {
                let p = ch.pick(t.len() + 1);
                let x = random_tok(ch);
                t.insert(p, x);
            }
            2 if !t.is_empty() => {
                let p = ch.pick(t.len());
                t[p] = random_tok(ch);
            }
            _ => {
                // Truncate.
                let p = ch.pick(t.len() + 1);
                t.truncate(p);
            }
        }
    }
    t
}

fn near_miss_case(ctx: &Ctx, ch: &mut Ch) -> Outcome {
    let s = gen_sentence(ch);
    let toks = sast::print_tokens(&s);
    if toks.len() > 80 {
        ctx.class("skipped: more than 80 tokens");
        return Ok(());
    }
    let mutated = mutate(ch, &toks);
    with_grammar(|g| {
        let v = check_tokens(g, &mutated)?;
        ctx.class(if v.sentence { "mutated sentence is still a sentence" } else { "near miss rejected" });
        if !v.sentence || v.nontrivial {
            ctx.nontrivial(&show(&mutated));
        }
        Ok(())
    })
}

fn random_tokens_case(ctx: &Ctx, ch: &mut Ch) -> Outcome {
    let len = 5 + ch.pick(6);
    // Bias towards the tokens that make sentences likely.
    let kinds: Vec<K> = (0..len)
        .map(|_| {
            if ch.chance(1, 2) {
                [K::Identifier, K::IntegerLiteral, K::LeftParen, K::RightParen, K::Type, K::Plus, K::Minus, K::Asterisk, K::ThinArrow, K::ThickArrow, K::Colon, K::Equals, K::Terminator][ch.pick(13)]
            } else {
                ALL_KINDS[ch.pick(ALL_KINDS.len())]
            }
        })
        .collect();
    let toks = concretise(&kinds);
    with_grammar(|g| {
        let v = check_tokens(g, &toks)?;
        ctx.class(if v.sentence { "random token string: sentence" } else { "random token string: rejected" });
        if v.sentence && v.nontrivial {
            ctx.nontrivial(&show(&toks));
        }
        Ok(())
    })
}

fn regression_cases() -> Vec<&'static str> {
    vec![
        "10 - ( 5 - 3 ) - ( 1 )",
        "8 / ( 4 / 2 ) / ( 1 )",
        "c0 ( c0 c0 ) ( c0 )",
        "( 5 else 7 )",
        "1 + 2 * ( 3 - 4 / 5 )",
        "c0 * - c0 * c0",
        "- c0 * c0 + c0",
        "if c0 then c0 else c0 + c0",
    ]
}

fn lex_simple(text: &str) -> Vec<Tok> {
    crate::refs::lex::lex(text).toks.into_iter().map(|t| t.tok).collect()
}

pub fn def(tier: Tier) -> CheckDef {
    let max_len = tier.pick(4, 5);
    let rounds = tier.pick(3, 40);
    CheckDef {
        id: "C07",
        level: "exploration",
        rule: "all token strings up to a length bound over the 28 token kinds (exhaustive), proptest-generated sentences (random surface trees with every former in every position, printed with minimal and redundant parentheses), operator-chain sentences (trees of one or two operator classes only - application, * /, + -, unary minus - nested to depth 4), and one-or-two-token mutations of sentences; oracle = chart parser over the productions read from /repo/grammar.y: membership, derivation count <= 1, and equality of gram's tree with the unique derivation (left-associated chains, flattened lets) through a binder-stack comparison; non-trivial = a sentence with operators of >= 2 precedence classes or >= 1 explicit group, or a rejected near-miss; distinct by token text",
        assumptions: vec![
            "a parenthesised group directly in the body position of a group is skipped: the property statements do not say whether it joins the enclosing group",
            "left association is applied to un-parenthesised application, * /, and + - chains only, as the header of grammar.y states",
        ],
        idle_limit_s: 600,
        needs_cli: false,
        fuzz: None,
        parts: vec![
            Part {
                name: "regressions",
                rounds: 1,
                run: Box::new(|ctx, _| {
                    if ctx.shard != 0 {
                        return;
                    }
                    with_grammar(|g| {
                        for text in regression_cases() {
                            let toks = lex_simple(text);
                            ctx.evaluated(1);
                            match check_tokens(g, &toks) {
                                Ok(v) => {
                                    if v.nontrivial {
                                        ctx.nontrivial(text);
                                    }
                                }
                                Err(f) => ctx.settle(Err(f)),
                            }
                        }
                    });
                }),
                replay: Some(Box::new(replay_text)),
            },
            Part {
                name: "enum-tokens",
                rounds: 1,
                run: Box::new(move |ctx, _| enumerate_part(ctx, max_len)),
                replay: Some(Box::new(replay_text)),
            },
            Part {
                name: "random-tokens",
                rounds,
                run: Box::new(|ctx, r| ctx.prop("random-tokens", r, 3000, 40, random_tokens_case)),
                replay: Some(Box::new(|ctx, inp| match inp {
                    ReplayInput::Choices(c) => random_tokens_case(ctx, &mut Ch::new(c)),
                    t => replay_text(ctx, t),
                })),
            },
            Part {
                name: "chains",
                rounds,
                run: Box::new(|ctx, r| ctx.prop("chains", r, 1500, 120, chain_case)),
                replay: Some(Box::new(|ctx, inp| match inp {
                    ReplayInput::Choices(c) => chain_case(ctx, &mut Ch::new(c)),
                    t => replay_text(ctx, t),
                })),
            },
            Part {
                name: "sentences",
                rounds,
                run: Box::new(|ctx, r| ctx.prop("sentences", r, 600, 400, sentence_case)),
                replay: Some(Box::new(|ctx, inp| match inp {
                    ReplayInput::Choices(c) => sentence_case(ctx, &mut Ch::new(c)),
                    t => replay_text(ctx, t),
                })),
            },
            Part {
                name: "near-misses",
                rounds,
                run: Box::new(|ctx, r| ctx.prop("near-misses", r, 600, 400, near_miss_case)),
                replay: Some(Box::new(|ctx, inp| match inp {
                    ReplayInput::Choices(c) => near_miss_case(ctx, &mut Ch::new(c)),
                    t => replay_text(ctx, t),
                })),
            },
        ],
    }
}

fn replay_text(ctx: &Ctx, inp: &ReplayInput) -> Outcome {
    match inp {
        ReplayInput::Text(t) => {
            // The saved input is "text (as tokens: ...)" or the plain token text.
            let text = t.split(" (as tokens: ").next().unwrap_or(t);
            let toks = lex_simple(text);
            with_grammar(|g| check_tokens(g, &toks).map(|_| ()))
        }
        _ => Err(Failure::new("this part replays from text", "")),
    }
}
