use gv::runner::{self, Ctx, Tier};

fn usage() -> ! {
    eprintln!("usage: harness run <ID> quick|thorough | harness replay <ID> <file> | harness worker ... | harness selftest");
    std::process::exit(2);
}

fn tier_of(s: &str) -> Tier {
    match s {
        "quick" => Tier::Quick,
        "thorough" => Tier::Thorough,
        _ => usage(),
    }
}

fn main() {
    let args: Vec<String> = std::env::args().collect();
    if args.len() < 2 {
        usage();
    }
    match args[1].as_str() {
        "run" => {
            if args.len() < 4 {
                usage();
            }
            let tier = tier_of(&args[3]);
            let seed: u64 = std::env::var("VERIF_SEED").ok().and_then(|s| s.trim().parse::<i128>().ok()).map(|v| v as u64).unwrap_or(0);
            let Some(def) = gv::checks::get(&args[2], tier) else {
                eprintln!("harness error: unknown check {}", args[2]);
                std::process::exit(2);
            };
            std::process::exit(runner::parent_main(&def, tier, seed));
        }
        "replay" => {
            if args.len() < 4 {
                usage();
            }
            let id = args[2].clone();
            let path = args[3].clone();
            let code = std::thread::Builder::new()
                .stack_size(1 << 30)
                .spawn(move || {
                    let Some(def) = gv::checks::get(&id, Tier::Quick) else {
                        eprintln!("harness error: unknown check {id}");
                        return 2;
                    };
                    runner::replay_main(&def, &path)
                })
                .unwrap()
                .join()
                .unwrap_or(2);
            std::process::exit(code);
        }
        "worker" => {
            // worker <id> <tier> <seed> <shard> <nshards> <from_round>
            if args.len() < 8 {
                usage();
            }
            let id = args[2].clone();
            let tier = tier_of(&args[3]);
            let seed: u64 = args[4].parse().unwrap();
            let shard: u32 = args[5].parse().unwrap();
            let nshards: u32 = args[6].parse().unwrap();
            let from: u32 = args[7].parse().unwrap();
            let h = std::thread::Builder::new()
                .stack_size(1 << 30)
                .spawn(move || {
                    let def = gv::checks::get(&id, tier).unwrap();
                    let ctx = Ctx::new(&id, tier, seed, shard, nshards);
                    runner::worker_main(&def, &ctx, from);
                })
                .unwrap();
            if h.join().is_err() {
                std::process::exit(3);
            }
        }
        "selftest" => {
            std::process::exit(gv::checks::selftest());
        }
        _ => usage(),
    }
}
