//! Glue between generated programs, the reference models (R-core, R-cbv) and gram's pipeline.

use crate::refs::core::{self, Cbv, CbvStop, CV, Id, K, Names, Nbe, Tc, TcErr, V};
use crate::sast::S;
use crate::term::Term;
use num_bigint::BigInt;
use std::rc::Rc;

pub const TC_FUEL: u64 = 400_000;

pub enum RefType {
    /// Well typed; the inferred type (as a value, with the checker that owns its names).
    Ok(Rc<V>),
    Ill(&'static str, String),
    Hole,
    Fuel,
    /// The surface program does not even scope-check (generator error).
    Unbound(String),
}

/// R-core on a closed source program.
pub fn ref_infer(s: &S, strict_annotations: bool) -> (Tc, Option<K>, RefType) {
    let mut names = Names::default();
    let k = match core::from_s(s, &mut vec![], &mut names) {
        Ok(k) => k,
        Err(e) => return (Tc::new(names, TC_FUEL), None, RefType::Unbound(e)),
    };
    let mut tc = Tc::new(names, TC_FUEL);
    tc.check_let_annotations = strict_annotations;
    let r = match tc.infer(&k, &None, &None) {
        Ok(t) => RefType::Ok(t),
        Err(TcErr::Ill(rule, why)) => RefType::Ill(rule, why),
        Err(TcErr::Hole) => RefType::Hole,
        Err(TcErr::Fuel) => RefType::Fuel,
    };
    (tc, Some(k), r)
}

#[derive(Clone, Debug, PartialEq, Eq)]
pub enum RefValue {
    Int(BigInt),
    Bool(bool),
    Function,
    FunctionType,
    BaseType(&'static str),
}

#[derive(Clone, Debug, PartialEq, Eq)]
pub enum RefEval {
    Value(RefValue),
    DivisionByZero,
    Stuck(String),
    Fuel,
}

pub struct EvalStats {
    pub steps: u64,
    pub max_depth: u32,
}

/// R-cbv on a closed core term.
pub fn ref_eval(k: &K, fuel: u64) -> (RefEval, EvalStats) {
    let mut cbv = Cbv::new(fuel);
    let r = match cbv.eval(k, &None) {
        Ok(CV::Int(n)) => RefEval::Value(RefValue::Int(n)),
        Ok(CV::Bool(b)) => RefEval::Value(RefValue::Bool(b)),
        Ok(CV::Clo(..)) => RefEval::Value(RefValue::Function),
        Ok(CV::Ty(k, _)) => RefEval::Value(match &*k {
            K::Pi(..) => RefValue::FunctionType,
            K::Type => RefValue::BaseType("type"),
            K::Int => RefValue::BaseType("int"),
            _ => RefValue::BaseType("bool"),
        }),
        Err(CbvStop::DivisionByZero) => RefEval::DivisionByZero,
        Err(CbvStop::Stuck(s)) => RefEval::Stuck(s),
        Err(CbvStop::Fuel) => RefEval::Fuel,
    };
    (r, EvalStats { steps: cbv.steps, max_depth: cbv.max_call_depth })
}

/// The value gram's step loop reached, in the same vocabulary.
pub fn gram_value(t: &Term) -> Option<RefValue> {
    use crate::term::Variant;
    Some(match &t.variant {
        Variant::IntegerLiteral(n) => RefValue::Int(n.clone()),
        Variant::True => RefValue::Bool(true),
        Variant::False => RefValue::Bool(false),
        Variant::Lambda(..) => RefValue::Function,
        Variant::Pi(..) => RefValue::FunctionType,
        Variant::Type => RefValue::BaseType("type"),
        Variant::Integer => RefValue::BaseType("int"),
        Variant::Boolean => RefValue::BaseType("bool"),
        _ => return None,
    })
}

pub enum ElabVerdict {
    Ok,
    /// The elaborated term or the reported type still contains an unresolved hole.
    Hole,
    Fuel,
    Bad(String),
}

/// R-core on gram's *elaborated* closed term and reported type: well scoped, well typed, and the
/// inferred type is convertible with the reported one.
pub fn check_elaborated(elab: &Term, reported: &Term, strict_annotations: bool) -> ElabVerdict {
    let mut names = Names::default();
    let k = match core::from_gram(elab, &mut vec![], &mut names) {
        Ok(k) => k,
        Err(e) => return ElabVerdict::Bad(format!("the elaborated term is not well scoped: {e}")),
    };
    let kt = match core::from_gram(reported, &mut vec![], &mut names) {
        Ok(k) => k,
        Err(e) => return ElabVerdict::Bad(format!("the reported type is not well scoped: {e}")),
    };
    if core::has_hole(&k) || core::has_hole(&kt) {
        return ElabVerdict::Hole;
    }
    let mut tc = Tc::new(names, TC_FUEL);
    tc.check_let_annotations = strict_annotations;
    let inferred = match tc.infer(&k, &None, &None) {
        Ok(t) => t,
        Err(TcErr::Ill(rule, why)) => return ElabVerdict::Bad(format!("the elaborated term is ill typed — {rule}: {why}")),
        Err(TcErr::Hole) => return ElabVerdict::Hole,
        Err(TcErr::Fuel) => return ElabVerdict::Fuel,
    };
    // The reported type must itself be a type.
    match tc.infer(&kt, &None, &None) {
        Ok(tt) => match tc.nbe.conv(&tt, &Rc::new(V::Type)) {
            Ok(true) => {}
            Ok(false) => return ElabVerdict::Bad(format!("the reported type `{reported}` is not a type")),
            Err(_) => return ElabVerdict::Fuel,
        },
        Err(TcErr::Ill(rule, why)) => return ElabVerdict::Bad(format!("the reported type is ill typed — {rule}: {why}")),
        Err(TcErr::Hole) => return ElabVerdict::Hole,
        Err(TcErr::Fuel) => return ElabVerdict::Fuel,
    }
    let rv = match tc.nbe.eval(&kt, &None) {
        Ok(v) => v,
        Err(_) => return ElabVerdict::Fuel,
    };
    match tc.nbe.conv(&inferred, &rv) {
        Ok(true) => ElabVerdict::Ok,
        Ok(false) => {
            let shown = tc.show(&inferred);
            ElabVerdict::Bad(format!("the elaborated term has type `{shown}`, which is not convertible with the reported type `{reported}`"))
        }
        Err(_) => ElabVerdict::Fuel,
    }
}

/// Is gram's closed `reported` type convertible with the reference type `want` (a value owned by
/// `tc`)? None = out of fuel / hole.
pub fn type_matches(tc: &mut Tc, want: &Rc<V>, reported: &Term) -> Option<bool> {
    let kt = core::from_gram(reported, &mut vec![], &mut tc.names).ok()?;
    if core::has_hole(&kt) {
        return None;
    }
    let rv = tc.nbe.eval(&kt, &None).ok()?;
    tc.nbe.conv(want, &rv).ok()
}
