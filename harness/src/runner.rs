//! Engine shared by all checks: proptest driver over choice sequences, sharded worker processes
//! with abort attribution, statistics, known-finding matching, evidence and replay files.

use crate::util::{Ch, derive_seed, fnv_str, truncate};
use proptest::{
    collection::vec,
    num::u16::ANY as ANY_U16,
    test_runner::{Config, RngAlgorithm, TestCaseError, TestError, TestRng, TestRunner},
};
use serde_json::{Value, json};
use std::{
    cell::{Cell, RefCell},
    collections::{BTreeMap, BTreeSet},
    io::{BufRead, BufReader, Write},
    panic::{AssertUnwindSafe, catch_unwind},
    path::PathBuf,
    process::{Command, Stdio},
    sync::{Arc, Mutex, mpsc},
    time::{Duration, Instant},
};

pub const NSHARDS: u32 = 16;

#[derive(Clone, Copy, PartialEq, Eq, Debug)]
pub enum Tier {
    Quick,
    Thorough,
}

impl Tier {
    pub fn name(self) -> &'static str {
        match self {
            Tier::Quick => "quick",
            Tier::Thorough => "thorough",
        }
    }
    /// Pick a count by tier.
    pub fn pick<T>(self, quick: T, thorough: T) -> T {
        match self {
            Tier::Quick => quick,
            Tier::Thorough => thorough,
        }
    }
}

pub fn verif_root() -> PathBuf {
    if let Ok(r) = std::env::var("VERIF_ROOT") {
        return PathBuf::from(r);
    }
    PathBuf::from(env!("CARGO_MANIFEST_DIR")).parent().unwrap().to_path_buf()
}

// ---------------------------------------------------------------------------------------------
// Failures, known findings
// ---------------------------------------------------------------------------------------------

#[derive(Clone, Debug)]
pub struct Failure {
    /// Signature id (a predicate implemented by the check that is narrower than the property).
    /// `None` = no recorded finding can explain this failure.
    pub sig: Option<String>,
    pub msg: String,
    /// The failing input written out in plain text.
    pub input: String,
}

impl Failure {
    pub fn new(msg: impl Into<String>, input: impl Into<String>) -> Self {
        Failure { sig: None, msg: msg.into(), input: input.into() }
    }
    pub fn with_sig(mut self, sig: &str) -> Self {
        self.sig = Some(if sig == "panic" { refine_panic_signature(&self.msg, &self.input).to_owned() } else { sig.to_owned() });
        self
    }
}

pub const SIG_HOLE_UNDER_BINDER: &str = "hole-written-under-a-binder-loses-the-shift-of-its-type";

/// A panic is normally just `panic`. One recorded finding is recognised by its call site and the
/// shape of the input: the normaliser's context lookup (src/normalizer.rs, Variable arm) is handed
/// an index beyond the context - in the shipped binary `index out of bounds`, with overflow checks
/// `attempt to subtract with overflow` - while checking a program that contains an explicit `_`
/// hole (a hole written under a binder of a type, e.g. `int -> _`, is solved with indices that are
/// off by the shift its type received later; see known_findings.json).
pub fn refine_panic_signature(msg: &str, input: &str) -> &'static str {
    let at_lookup = msg.contains("normalizer.rs") && (msg.contains("index out of bounds") || msg.contains("attempt to subtract with overflow"));
    let chars: Vec<char> = input.chars().collect();
    let word = |c: char| c.is_alphanumeric() || c == '_';
    let has_hole = (0..chars.len()).any(|i| chars[i] == '_' && (i == 0 || !word(chars[i - 1])) && (i + 1 == chars.len() || !word(chars[i + 1])));
    if at_lookup && has_hole { SIG_HOLE_UNDER_BINDER } else { "panic" }
}

pub type Outcome = Result<(), Failure>;

#[derive(Clone, Debug)]
pub struct KnownFinding {
    pub property: String,
    pub signature: String,
    pub status: String, // "known" | "fixed"
    pub what: String,
}

pub fn load_known_findings() -> Vec<KnownFinding> {
    let path = verif_root().join("known_findings.json");
    let Ok(text) = std::fs::read_to_string(&path) else {
        return vec![];
    };
    let v: Value = serde_json::from_str(&text).unwrap_or_else(|e| {
        eprintln!("harness error: {} does not parse: {e}", path.display());
        std::process::exit(2);
    });
    let mut out = vec![];
    for e in v["findings"].as_array().cloned().unwrap_or_default() {
        out.push(KnownFinding {
            property: e["property"].as_str().unwrap_or("").to_owned(),
            signature: e["signature"].as_str().unwrap_or("").to_owned(),
            status: e["status"].as_str().unwrap_or("").to_owned(),
            what: e["what"].as_str().unwrap_or("").to_owned(),
        });
    }
    out
}

// ---------------------------------------------------------------------------------------------
// Statistics
// ---------------------------------------------------------------------------------------------

#[derive(Default, Clone)]
pub struct Stats {
    pub evaluations: u64,
    pub nontrivial_hashes: BTreeSet<u64>,
    /// Non-trivial cases of exhaustive enumerations (distinct by construction, not hashed).
    pub nontrivial_enumerated: u64,
    pub classes: BTreeMap<String, u64>,
    pub samples: Vec<String>,
    pub inconclusive: BTreeMap<String, u64>,
    pub known: BTreeMap<String, (u64, String)>,
    pub violations: Vec<Value>,
    pub notes: BTreeSet<String>,
    pub exhaustive_parts: BTreeSet<String>,
}

impl Stats {
    fn to_json(&self) -> Value {
        json!({
            "evaluations": self.evaluations,
            "hashes": self.nontrivial_hashes.iter().map(|h| format!("{h:x}")).collect::<Vec<_>>(),
            "enumerated": self.nontrivial_enumerated,
            "classes": self.classes,
            "samples": self.samples,
            "inconclusive": self.inconclusive,
            "known": self.known.iter().map(|(k, (n, ex))| json!([k, n, ex])).collect::<Vec<_>>(),
            "violations": self.violations,
            "notes": self.notes,
            "exhaustive": self.exhaustive_parts,
        })
    }

    fn merge_json(&mut self, v: &Value) {
        self.evaluations += v["evaluations"].as_u64().unwrap_or(0);
        for h in v["hashes"].as_array().into_iter().flatten() {
            if let Some(s) = h.as_str() {
                if let Ok(x) = u64::from_str_radix(s, 16) {
                    self.nontrivial_hashes.insert(x);
                }
            }
        }
        self.nontrivial_enumerated += v["enumerated"].as_u64().unwrap_or(0);
        if let Some(m) = v["classes"].as_object() {
            for (k, n) in m {
                *self.classes.entry(k.clone()).or_default() += n.as_u64().unwrap_or(0);
            }
        }
        for s in v["samples"].as_array().into_iter().flatten() {
            if let Some(s) = s.as_str() {
                self.samples.push(s.to_owned());
            }
        }
        if let Some(m) = v["inconclusive"].as_object() {
            for (k, n) in m {
                *self.inconclusive.entry(k.clone()).or_default() += n.as_u64().unwrap_or(0);
            }
        }
        for k in v["known"].as_array().into_iter().flatten() {
            let sig = k[0].as_str().unwrap_or("").to_owned();
            let n = k[1].as_u64().unwrap_or(0);
            let ex = k[2].as_str().unwrap_or("").to_owned();
            let e = self.known.entry(sig).or_insert((0, ex));
            e.0 += n;
        }
        for x in v["violations"].as_array().into_iter().flatten() {
            self.violations.push(x.clone());
        }
        for n in v["notes"].as_array().into_iter().flatten() {
            if let Some(s) = n.as_str() {
                self.notes.insert(s.to_owned());
            }
        }
        for n in v["exhaustive"].as_array().into_iter().flatten() {
            if let Some(s) = n.as_str() {
                self.exhaustive_parts.insert(s.to_owned());
            }
        }
    }
}

// ---------------------------------------------------------------------------------------------
// Worker-side context
// ---------------------------------------------------------------------------------------------

pub struct Ctx {
    pub id: String,
    pub tier: Tier,
    pub seed: u64,
    pub shard: u32,
    pub nshards: u32,
    pub known: Vec<KnownFinding>,
    /// Strict mode (replay): nothing is suppressed silently; known findings are still reported as
    /// KNOWN-FINDING by the caller.
    pub replay: bool,
    stats: RefCell<Stats>,
    frozen: Cell<bool>,
    cur_part: RefCell<String>,
    samples_in_part: Cell<u32>,
}

thread_local! {
    static LAST_PANIC: RefCell<Option<String>> = const { RefCell::new(None) };
    static IN_CATCH: Cell<u32> = const { Cell::new(0) };
}

pub fn install_quiet_panic_hook() {
    std::panic::set_hook(Box::new(|info| {
        let loc = info.location().map(|l| format!("{}:{}", l.file(), l.line())).unwrap_or_default();
        let msg = if let Some(s) = info.payload().downcast_ref::<&str>() {
            (*s).to_owned()
        } else if let Some(s) = info.payload().downcast_ref::<String>() {
            s.clone()
        } else {
            "<non-string panic payload>".to_owned()
        };
        if IN_CATCH.with(Cell::get) == 0 {
            eprintln!("harness error: panic outside any guarded region: {msg} @ {loc}");
        }
        LAST_PANIC.with(|p| *p.borrow_mut() = Some(format!("{msg} @ {loc}")));
    }));
}

/// Run `f`, turning a panic into `Err(message @ file:line)`.
pub fn catch<T>(f: impl FnOnce() -> T) -> Result<T, String> {
    LAST_PANIC.with(|p| *p.borrow_mut() = None);
    IN_CATCH.with(|c| c.set(c.get() + 1));
    let r = catch_unwind(AssertUnwindSafe(f));
    IN_CATCH.with(|c| c.set(c.get() - 1));
    match r {
        Ok(v) => Ok(v),
        Err(_) => Err(LAST_PANIC
            .with(|p| p.borrow_mut().take())
            .unwrap_or_else(|| "panic (no message captured)".to_owned())),
    }
}

impl Ctx {
    pub fn new(id: &str, tier: Tier, seed: u64, shard: u32, nshards: u32) -> Self {
        Ctx {
            id: id.to_owned(),
            tier,
            seed,
            shard,
            nshards,
            known: load_known_findings(),
            replay: false,
            stats: RefCell::new(Stats::default()),
            frozen: Cell::new(false),
            cur_part: RefCell::new(String::new()),
            samples_in_part: Cell::new(0),
        }
    }

    pub fn is_known(&self, sig: &str) -> Option<&KnownFinding> {
        self.known.iter().find(|k| k.property == self.id && k.signature == sig && k.status == "known")
    }

    fn emit(&self, v: &Value) {
        let out = std::io::stdout();
        let mut lock = out.lock();
        let _ = writeln!(lock, "@{v}");
        let _ = lock.flush();
    }

    /// Announce the case that is about to run, so that the parent can attribute an abort
    /// (stack overflow) or a hang. `abort_is_violation`: the input is terminating by construction
    /// (or the stage contains no user computation), so an abnormal ending is a violation.
    pub fn announce(&self, abort_is_violation: bool, sig: Option<&str>, text: &str) {
        if self.replay {
            return;
        }
        self.emit(&json!({"t": "case", "v": abort_is_violation, "sig": sig,
            "part": *self.cur_part.borrow(), "text": text}));
    }

    pub fn class(&self, name: &str) {
        if !self.frozen.get() {
            *self.stats.borrow_mut().classes.entry(name.to_owned()).or_default() += 1;
        }
    }

    pub fn class_n(&self, name: &str, n: u64) {
        if !self.frozen.get() {
            *self.stats.borrow_mut().classes.entry(name.to_owned()).or_default() += n;
        }
    }

    /// Record a non-trivial case (distinct by hash of its text) and keep a few as samples.
    pub fn nontrivial(&self, text: &str) {
        if self.frozen.get() {
            return;
        }
        let fresh = self.stats.borrow_mut().nontrivial_hashes.insert(fnv_str(text));
        if fresh && self.samples_in_part.get() < 2 {
            self.samples_in_part.set(self.samples_in_part.get() + 1);
            let part = self.cur_part.borrow().clone();
            self.stats.borrow_mut().samples.push(format!("[{part}] {}", truncate(text, 400)));
        }
    }

    /// Non-trivial case of an exhaustive enumeration (distinct by construction).
    pub fn nontrivial_enumerated(&self, sample: impl FnOnce() -> String) {
        if self.frozen.get() {
            return;
        }
        self.stats.borrow_mut().nontrivial_enumerated += 1;
        if self.samples_in_part.get() < 2 {
            self.samples_in_part.set(self.samples_in_part.get() + 1);
            let part = self.cur_part.borrow().clone();
            self.stats.borrow_mut().samples.push(format!("[{part}] {}", truncate(&sample(), 400)));
        }
    }

    pub fn evaluated(&self, n: u64) {
        if !self.frozen.get() {
            self.stats.borrow_mut().evaluations += n;
        }
    }

    pub fn inconclusive(&self, why: &str) {
        if !self.frozen.get() {
            *self.stats.borrow_mut().inconclusive.entry(why.to_owned()).or_default() += 1;
        }
    }

    pub fn note(&self, text: &str) {
        self.stats.borrow_mut().notes.insert(text.to_owned());
    }

    pub fn exhaustive(&self, part: &str) {
        self.stats.borrow_mut().exhaustive_parts.insert(part.to_owned());
    }

    pub fn frozen(&self) -> bool {
        self.frozen.get()
    }

    /// Handle the outcome of one non-proptest case (enumeration, fixed families, regressions).
    pub fn settle(&self, outcome: Outcome) {
        if let Err(f) = outcome {
            self.record_failure(&f, None);
        }
    }

    fn record_failure(&self, f: &Failure, choices: Option<&[u16]>) {
        if let Some(sig) = &f.sig {
            if self.is_known(sig).is_some() {
                let mut st = self.stats.borrow_mut();
                let e = st.known.entry(sig.clone()).or_insert((0, truncate(&f.input, 300)));
                e.0 += 1;
                return;
            }
        }
        let mut st = self.stats.borrow_mut();
        if st.violations.len() < 8 {
            st.violations.push(json!({
                "part": *self.cur_part.borrow(),
                "sig": f.sig,
                "msg": truncate(&f.msg, 2000),
                "input": f.input,
                "choices": choices,
            }));
        }
    }

    /// Drive `f` with proptest over choice sequences: `cases` cases of up to `max_len` choices.
    /// A failing case is shrunk by proptest; the minimal choice sequence and its decoded input
    /// become the replay file.
    pub fn prop(
        &self,
        part: &str,
        round: u32,
        cases: u32,
        max_len: usize,
        f: impl Fn(&Ctx, &mut Ch) -> Outcome,
    ) {
        *self.cur_part.borrow_mut() = part.to_owned();
        let seed = derive_seed(self.seed, &format!("{}/{}", self.id, part), self.shard, round);
        let mut seed_bytes = [0u8; 32];
        for i in 0..4 {
            seed_bytes[i * 8..i * 8 + 8]
                .copy_from_slice(&crate::util::mix(seed.wrapping_add(i as u64)).to_le_bytes());
        }
        let config = Config {
            cases,
            failure_persistence: None,
            max_shrink_iters: 3000,
            // Shrinking a slow failing case must not hold up the run (the verdict does not depend on it).
            max_shrink_time: 90_000,
            max_global_rejects: 1,
            ..Config::default()
        };
        let mut runner =
            TestRunner::new_with_rng(config, TestRng::from_seed(RngAlgorithm::ChaCha, &seed_bytes));
        let strategy = vec(ANY_U16, 0..max_len);
        let run_one = |v: &[u16]| -> Outcome {
            let mut ch = Ch::new(v);
            match catch(|| f(self, &mut ch)) {
                Ok(o) => o,
                Err(p) => Err(Failure::new(
                    format!("panic while checking the case: {p}"),
                    format!("choices={v:?}"),
                )
                .with_sig("panic")),
            }
        };
        let last_beat = Cell::new(Instant::now());
        let last_failure: RefCell<Option<Failure>> = RefCell::new(None);
        let result = runner.run(&strategy, |v| {
            if !self.frozen.get() {
                self.stats.borrow_mut().evaluations += 1;
            }
            // Heartbeat between cases, so that the parent's watchdog only fires when a single case
            // hangs.
            if !self.replay && last_beat.get().elapsed() > Duration::from_secs(5) {
                last_beat.set(Instant::now());
                self.emit(&json!({"t": "beat"}));
            }
            match run_one(&v) {
                Ok(()) => Ok(()),
                Err(fl) => {
                    if fl.sig.as_deref().is_some_and(|s| self.is_known(s).is_some()) {
                        if !self.frozen.get() {
                            self.record_failure(&fl, None);
                        }
                        Ok(())
                    } else {
                        self.frozen.set(true);
                        *last_failure.borrow_mut() = Some(fl.clone());
                        Err(TestCaseError::fail(truncate(&fl.msg, 200)))
                    }
                }
            }
        });
        if let Err(TestError::Fail(_, v)) = result {
            // Re-run the minimal case once (still frozen) to get its message and rendering.
            if let Err(fl) = run_one(&v) {
                self.record_failure(&fl, Some(&v));
            } else if let Some(fl) = last_failure.borrow_mut().take() {
                // The last failing observation stands (for a property about determinism this is
                // the expected way to fail); the replay file holds the case, which may pass.
                let fl = Failure { msg: format!("{} [observed during the search; one re-run of the same case did not show it: the outcome is not a function of the input]", fl.msg), ..fl };
                self.record_failure(&fl, Some(&v));
            } else {
                self.record_failure(
                    &Failure::new("failure did not reproduce on the shrunk case (flaky oracle?)", format!("{v:?}")),
                    Some(&v),
                );
            }
        } else if let Err(TestError::Abort(r)) = result {
            self.note(&format!("proptest aborted part {part}: {r}"));
        }
        self.frozen.set(false);
    }

    /// Begin a non-proptest part (for sample bookkeeping and violation attribution).
    pub fn begin_part(&self, part: &str) {
        *self.cur_part.borrow_mut() = part.to_owned();
    }

    pub fn take_stats(&self) -> Stats {
        self.samples_in_part.set(0);
        std::mem::take(&mut *self.stats.borrow_mut())
    }

    pub fn peek_violations(&self) -> usize {
        self.stats.borrow().violations.len()
    }
}

// ---------------------------------------------------------------------------------------------
// Parts and the registry interface
// ---------------------------------------------------------------------------------------------

pub struct Part {
    pub name: &'static str,
    /// Rounds per shard. A round is the unit after which a worker reports and from which it can be
    /// restarted when a case aborts the process.
    pub rounds: u32,
    pub run: Box<dyn Fn(&Ctx, u32)>,
    /// Replays one saved case (choice sequence or plain text) through the same oracle.
    pub replay: Option<Box<dyn Fn(&Ctx, &ReplayInput) -> Outcome>>,
}

pub enum ReplayInput {
    Choices(Vec<u16>),
    Text(String),
    /// A raw libFuzzer artifact.
    Bytes(Vec<u8>),
}

pub struct CheckDef {
    pub id: &'static str,
    pub level: &'static str,
    pub rule: &'static str,
    pub assumptions: Vec<&'static str>,
    pub parts: Vec<Part>,
    /// Seconds without any output after which a worker is killed (hang detection).
    pub idle_limit_s: u64,
    /// The check drives the real CLI: the parent builds it from the current tree first.
    pub needs_cli: bool,
    /// libFuzzer campaign run after the workers in the thorough tier: (target, runs per job).
    pub fuzz: Option<(&'static str, u64)>,
}

// ---------------------------------------------------------------------------------------------
// Worker entry
// ---------------------------------------------------------------------------------------------

pub fn worker_main(def: &CheckDef, ctx: &Ctx, from_round: u32) {
    install_quiet_panic_hook();
    colored::control::set_override(false);
    let mut g = 0u32;
    for part in &def.parts {
        for r in 0..part.rounds {
            let only = std::env::var("VERIF_ONLY_PART").ok();
            if g >= from_round && only.as_deref().is_none_or(|o| o == part.name) {
                ctx.begin_part(part.name);
                (part.run)(ctx, r);
                let st = ctx.take_stats();
                ctx.emit(&json!({"t": "round", "g": g, "part": part.name, "stats": st.to_json()}));
            }
            g += 1;
        }
    }
    ctx.emit(&json!({"t": "done"}));
}

// ---------------------------------------------------------------------------------------------
// Parent: orchestrate workers, merge, report
// ---------------------------------------------------------------------------------------------

struct WorkerEvent {
    shard: u32,
    kind: EventKind,
}

enum EventKind {
    Line(Value),
    Exit(Option<i32>, Option<i32>), // (code, signal)
}

fn spawn_worker(
    exe: &std::path::Path,
    id: &str,
    tier: Tier,
    seed: u64,
    shard: u32,
    from_round: u32,
    tx: mpsc::Sender<WorkerEvent>,
) -> Arc<Mutex<std::process::Child>> {
    let mut child = Command::new(exe)
        .args([
            "worker",
            id,
            tier.name(),
            &seed.to_string(),
            &shard.to_string(),
            &NSHARDS.to_string(),
            &from_round.to_string(),
        ])
        .env("NO_COLOR", "1")
        .env("GV_SCRATCH_ROOT", scratch_root())
        .stdin(Stdio::null())
        .stdout(Stdio::piped())
        .stderr(Stdio::piped())
        .spawn()
        .unwrap_or_else(|e| {
            eprintln!("harness error: cannot spawn worker: {e}");
            std::process::exit(2);
        });
    let stdout = child.stdout.take().unwrap();
    // Forward the worker's stderr, minus the runtime's own noise about aborts that the parent
    // already accounts for (and proptest's note about its shrink budget).
    if let Some(stderr) = child.stderr.take() {
        std::thread::spawn(move || {
            for line in BufReader::new(stderr).lines() {
                let Ok(line) = line else { break };
                let noise = line.trim().is_empty()
                    || line.contains("has overflowed its stack")
                    || line.contains("fatal runtime error: stack overflow")
                    || line.starts_with("proptest: Aborting shrinking");
                if !noise {
                    eprintln!("{line}");
                }
            }
        });
    }
    let child = Arc::new(Mutex::new(child));
    let child2 = child.clone();
    std::thread::spawn(move || {
        let reader = BufReader::new(stdout);
        for line in reader.lines() {
            let Ok(line) = line else { break };
            if let Some(rest) = line.strip_prefix('@') {
                if let Ok(v) = serde_json::from_str::<Value>(rest) {
                    let _ = tx.send(WorkerEvent { shard, kind: EventKind::Line(v) });
                }
            }
        }
        // EOF: reap.
        let status = loop {
            let mut c = child2.lock().unwrap();
            match c.try_wait() {
                Ok(Some(s)) => break Some(s),
                Ok(None) => {
                    drop(c);
                    std::thread::sleep(Duration::from_millis(5));
                }
                Err(_) => break None,
            }
        };
        let (code, sig) = match status {
            Some(s) => {
                use std::os::unix::process::ExitStatusExt;
                (s.code(), s.signal())
            }
            None => (None, None),
        };
        let _ = tx.send(WorkerEvent { shard, kind: EventKind::Exit(code, sig) });
    });
    child
}

struct ShardState {
    child: Option<Arc<Mutex<std::process::Child>>>,
    next_round: u32,
    last_case: Option<Value>,
    last_activity: Instant,
    done: bool,
    killed_for_hang: bool,
    /// Set when the worker has been silent for the idle limit: (its CPU time then, when).
    hang_checkpoint: Option<(f64, Instant)>,
    restarts: u32,
}

/// CPU time (user + system, seconds) a process has used so far.
fn proc_cpu_seconds(pid: u32) -> Option<f64> {
    let stat = std::fs::read_to_string(format!("/proc/{pid}/stat")).ok()?;
    let rest = stat.rsplit_once(')')?.1;
    let fields: Vec<&str> = rest.split_whitespace().collect();
    // `rest` starts at field 3 (state); utime and stime are fields 14 and 15.
    let utime: f64 = fields.get(11)?.parse().ok()?;
    let stime: f64 = fields.get(12)?.parse().ok()?;
    // SAFETY: plain libc query.
    let hz = unsafe { libc::sysconf(libc::_SC_CLK_TCK) } as f64;
    Some((utime + stime) / hz.max(1.0))
}

/// Scratch files of this run's workers live under one directory that the parent removes at the
/// end, also when a worker was killed or aborted and could not clean up after itself.
fn scratch_root() -> PathBuf {
    std::env::temp_dir().join(format!("gv-run-{}", std::process::id()))
}

struct RemoveScratchRoot;

impl Drop for RemoveScratchRoot {
    fn drop(&mut self) {
        let _ = std::fs::remove_dir_all(scratch_root());
    }
}

pub fn parent_main(def: &CheckDef, tier: Tier, seed: u64) -> i32 {
    let t0 = Instant::now();
    let _ = std::fs::create_dir_all(scratch_root());
    let _remove_scratch = RemoveScratchRoot;
    if def.needs_cli {
        if let Err(e) = crate::cli::ensure_built() {
            eprintln!("harness error: {e}");
            return 2;
        }
    }
    let exe = std::env::current_exe().expect("current_exe");
    let total_rounds: u32 = def.parts.iter().map(|p| p.rounds).sum();
    let known = load_known_findings();
    let (tx, rx) = mpsc::channel::<WorkerEvent>();
    let mut shards: Vec<ShardState> = (0..NSHARDS)
        .map(|s| ShardState {
            child: Some(spawn_worker(&exe, def.id, tier, seed, s, 0, tx.clone())),
            next_round: 0,
            last_case: None,
            last_activity: Instant::now(),
            done: false,
            killed_for_hang: false,
            hang_checkpoint: None,
            restarts: 0,
        })
        .collect();
    let mut total = Stats::default();
    let mut aborts: Vec<Value> = vec![];
    let mut harness_errors: Vec<String> = vec![];
    let idle_limit = Duration::from_secs(
        std::env::var("VERIF_IDLE_LIMIT_S").ok().and_then(|s| s.parse().ok()).unwrap_or(def.idle_limit_s),
    );
    let wall_limit = Duration::from_secs(
        std::env::var("VERIF_WALL_LIMIT_S")
            .ok()
            .and_then(|s| s.parse().ok())
            .unwrap_or(tier.pick(1500, 4 * 3600)),
    );
    let mut wall_exceeded = false;

    while shards.iter().any(|s| !s.done) {
        match rx.recv_timeout(Duration::from_millis(500)) {
            Ok(ev) => {
                let st = &mut shards[ev.shard as usize];
                st.last_activity = Instant::now();
                st.hang_checkpoint = None;
                match ev.kind {
                    EventKind::Line(v) => match v["t"].as_str() {
                        Some("case") => st.last_case = Some(v),
                        Some("round") => {
                            total.merge_json(&v["stats"]);
                            st.next_round = v["g"].as_u64().unwrap_or(0) as u32 + 1;
                            st.last_case = None;
                        }
                        Some("done") => {
                            st.next_round = total_rounds;
                        }
                        _ => {}
                    },
                    EventKind::Exit(code, sig) => {
                        st.child = None;
                        if st.next_round >= total_rounds && code == Some(0) {
                            st.done = true;
                        } else if wall_exceeded {
                            st.done = true;
                        } else {
                            // Abnormal ending inside round `next_round`.
                            let how = if st.killed_for_hang {
                                "timeout".to_owned()
                            } else if let Some(s) = sig {
                                format!("signal {s}")
                            } else {
                                format!("exit code {code:?}")
                            };
                            st.killed_for_hang = false;
                            match st.last_case.take() {
                                Some(c) => {
                                    // After an abort that is itself a violation, skip the rest of
                                    // that part on this shard: the next rounds would likely hit
                                    // the same defect and each cost a watchdog period.
                                    if c["v"].as_bool() == Some(true) {
                                        let mut start = 0u32;
                                        for p in &def.parts {
                                            if st.next_round < start + p.rounds {
                                                st.next_round = start + p.rounds - 1;
                                                break;
                                            }
                                            start += p.rounds;
                                        }
                                    }
                                    aborts.push(json!({"how": how, "case": c, "shard": ev.shard}));
                                }
                                None => harness_errors.push(format!(
                                    "worker for shard {} ended with {how} in round {} without an announced case",
                                    ev.shard, st.next_round
                                )),
                            }
                            st.next_round += 1; // the rest of that round is lost (counted below)
                            *total.classes.entry("engine: rounds cut short by an abort/timeout".into()).or_default() += 1;
                            st.restarts += 1;
                            if st.next_round >= total_rounds || st.restarts > 200 {
                                st.done = true;
                            } else {
                                st.child = Some(spawn_worker(
                                    &exe, def.id, tier, seed, ev.shard, st.next_round, tx.clone(),
                                ));
                            }
                        }
                    }
                }
            }
            Err(mpsc::RecvTimeoutError::Timeout) => {}
            Err(mpsc::RecvTimeoutError::Disconnected) => break,
        }
        // Watchdogs.
        let now = Instant::now();
        if !wall_exceeded && now.duration_since(t0) > wall_limit {
            wall_exceeded = true;
            for st in &mut shards {
                if let Some(c) = &st.child {
                    let _ = c.lock().unwrap().kill();
                }
            }
        }
        for st in &mut shards {
            if !st.done && st.child.is_some() && now.duration_since(st.last_activity) > idle_limit && !st.killed_for_hang {
                // Silent for the idle limit. On a busy machine that may be starvation rather
                // than a hang: from here on the worker is given the same amount again, measured
                // in its own CPU time (with a wall-clock cap), before it is killed.
                let Some(c) = &st.child else { continue };
                let cpu = proc_cpu_seconds(c.lock().unwrap().id());
                let kill = match (st.hang_checkpoint, cpu) {
                    (None, Some(cpu)) => {
                        st.hang_checkpoint = Some((cpu, now));
                        false
                    }
                    (Some((cpu0, t)), Some(cpu)) => cpu - cpu0 >= 0.8 * idle_limit.as_secs_f64() || now.duration_since(t) > idle_limit * 10,
                    (_, None) => true,
                };
                if kill {
                    st.killed_for_hang = true;
                    st.hang_checkpoint = None;
                    let _ = c.lock().unwrap().kill();
                }
            }
        }
    }

    // Coverage-guided campaign (thorough tier only).
    let mut fuzz_report = Value::Null;
    if let (Some((target, runs)), Tier::Thorough) = (def.fuzz, tier) {
        let (report, crashes) = run_fuzz_campaign(def.id, target, runs, seed);
        if let Some(e) = report["error"].as_str() {
            harness_errors.push(format!("libFuzzer campaign: {e}"));
        }
        total.evaluations += report["executions"].as_u64().unwrap_or(0);
        for (path, text) in crashes {
            total.violations.push(json!({"part": "fuzz", "sig": Value::Null, "msg": format!("libFuzzer target {target} crashed (oracle violated or panic); artifact {path}"), "input": text, "choices": Value::Null}));
        }
        fuzz_report = report;
    }

    // Classify aborts.
    let mut abort_violations: Vec<Value> = vec![];
    for a in &aborts {
        let c = &a["case"];
        let sig = c["sig"].as_str();
        let is_v = c["v"].as_bool().unwrap_or(false);
        let text = c["text"].as_str().unwrap_or("").to_owned();
        let how = a["how"].as_str().unwrap_or("");
        if is_v {
            let known_sig = sig.and_then(|s| {
                known.iter().find(|k| k.property == def.id && k.signature == s && k.status == "known")
            });
            if let Some(k) = known_sig {
                let e = total.known.entry(k.signature.clone()).or_insert((0, truncate(&text, 300)));
                e.0 += 1;
            } else {
                abort_violations.push(json!({
                    "part": c["part"], "sig": sig,
                    "msg": format!("the process ended abnormally ({how}) on an input for which that is a violation"),
                    "input": text, "choices": Value::Null,
                }));
            }
        } else {
            *total.inconclusive.entry(format!("worker {how} on a case where divergence is allowed")).or_default() += 1;
        }
    }
    total.violations.extend(abort_violations);

    // Report.
    let replay_dir = verif_root().join("replays").join(def.id);
    let mut exit = 0;
    let mut seen = BTreeSet::new();
    let mut per_part_reported: BTreeMap<String, u32> = BTreeMap::new();
    // Shortest inputs first: they are the most useful reproductions.
    let mut ordered: Vec<&Value> = total.violations.iter().collect();
    ordered.sort_by_key(|v| (v["input"].as_str().map_or(0, str::len), v["input"].as_str().unwrap_or("").to_owned()));
    for v in ordered {
        let input = v["input"].as_str().unwrap_or("");
        let key = fnv_str(&format!("{}{}", v["part"], input));
        if !seen.insert(key) {
            continue;
        }
        exit = 1;
        let n = per_part_reported.entry(v["part"].to_string()).or_default();
        *n += 1;
        if *n > 3 {
            continue;
        }
        let _ = std::fs::create_dir_all(&replay_dir);
        let path = replay_dir.join(format!("{key:016x}.json"));
        let body = json!({
            "property": def.id, "part": v["part"], "signature": v["sig"], "message": v["msg"],
            "input": input, "choices": v["choices"], "seed": seed, "tier": tier.name(),
        });
        let _ = std::fs::write(&path, serde_json::to_string_pretty(&body).unwrap());
        println!("VIOLATION property={} replay={}", def.id, path.display());
        println!("  part={} msg={}", v["part"], truncate(v["msg"].as_str().unwrap_or(""), 600));
        println!("  input={}", truncate(input, 600));
    }
    for (sig, (n, ex)) in &total.known {
        let what = known
            .iter()
            .find(|k| k.property == def.id && &k.signature == sig)
            .map(|k| k.what.clone())
            .unwrap_or_default();
        println!("KNOWN-FINDING: property={} signature={sig} cases={n} {what} e.g. {}", def.id, truncate(ex, 160).replace('\n', "⏎"));
    }
    for e in &harness_errors {
        eprintln!("harness error: {e}");
    }
    if wall_exceeded {
        eprintln!("inconclusive: wall-clock limit reached; the run was cut short");
    }

    let distinct = total.nontrivial_hashes.len() as u64 + total.nontrivial_enumerated;
    let wall = t0.elapsed().as_secs_f64();
    let mut samples = total.samples.clone();
    samples.sort();
    samples.dedup();
    // Keep at most 3 samples per part, 24 overall.
    let mut per_part: BTreeMap<String, u32> = BTreeMap::new();
    samples.retain(|s| {
        let part = s.split(']').next().unwrap_or("").to_owned();
        let n = per_part.entry(part).or_default();
        *n += 1;
        *n <= 3
    });
    samples.truncate(24);
    if samples.is_empty() {
        samples.push("(no non-trivial case was produced)".to_owned());
    }
    let evidence = json!({
        "property_id": def.id,
        "tier": tier.name(),
        "seed": seed,
        "level": def.level,
        "coverage": {
            "evaluations": total.evaluations,
            "distinct_nontrivial": distinct,
            "rule": def.rule,
            "samples": samples,
            "exhaustive": !total.exhaustive_parts.is_empty() && def.parts.iter().all(|p| total.exhaustive_parts.contains(p.name)),
            "exhaustive_parts": total.exhaustive_parts,
            "classes": total.classes,
            "inconclusive": total.inconclusive,
            "known_findings_observed": total.known.iter().map(|(k, (n, ex))| json!({"signature": k, "cases": n, "example": ex})).collect::<Vec<_>>(),
            "aborts": aborts.len(),
            "abort_cases": aborts.iter().take(12).map(|a| json!({"how": a["how"], "part": a["case"]["part"], "abort_is_violation": a["case"]["v"], "input": truncate(a["case"]["text"].as_str().unwrap_or(""), 400)})).collect::<Vec<_>>(),
            "notes": total.notes,
            "parts": def.parts.iter().map(|p| json!({"name": p.name, "rounds_per_shard": p.rounds})).collect::<Vec<_>>(),
            "shards": NSHARDS,
            "libfuzzer": fuzz_report,
        },
        "assumptions": def.assumptions,
        "wall_s": (wall * 100.0).round() / 100.0,
        "violations": total.violations.len(),
    });
    let ev_dir = verif_root().join("evidence");
    let _ = std::fs::create_dir_all(&ev_dir);
    let ev_path = ev_dir.join(format!("{}.json", def.id));
    if let Err(e) = std::fs::write(&ev_path, serde_json::to_string_pretty(&evidence).unwrap() + "\n") {
        eprintln!("harness error: cannot write {}: {e}", ev_path.display());
        return 2;
    }
    println!(
        "{} {}: evaluations={} distinct_nontrivial={} inconclusive={} known={} violations={} wall={:.1}s",
        def.id,
        tier.name(),
        total.evaluations,
        distinct,
        total.inconclusive.values().sum::<u64>(),
        total.known.len(),
        total.violations.len(),
        wall
    );
    if exit == 0 && (!harness_errors.is_empty() || wall_exceeded || total.evaluations == 0) {
        return 2;
    }
    exit
}

/// Replay one saved case in-process, strictly.
pub fn replay_main(def: &CheckDef, path: &str) -> i32 {
    install_quiet_panic_hook();
    colored::control::set_override(false);
    let raw = std::fs::read(path).unwrap_or_default();
    let text = match std::fs::read(path) {
        Ok(t) => String::from_utf8_lossy(&t).into_owned(),
        Err(e) => {
            eprintln!("harness error: cannot read {path}: {e}");
            return 2;
        }
    };
    let v: Value = match serde_json::from_str(&text) {
        Ok(v) => v,
        Err(_) => {
            // A raw libFuzzer artifact: replay its bytes through the check's `fuzz` part.
            json!({"part": "fuzz", "raw": true})
        }
    };
    let part_name = v["part"].as_str().unwrap_or("");
    let Some(part) = def.parts.iter().find(|p| p.name == part_name) else {
        eprintln!("harness error: no part named {part_name:?} in {}", def.id);
        return 2;
    };
    let Some(replay) = &part.replay else {
        // Enumeration parts are replayed by re-running the (deterministic) enumeration and
        // looking for the saved input among the failures.
        let want = v["input"].as_str().unwrap_or("").to_owned();
        let tier = if v["tier"].as_str() == Some("thorough") { Tier::Thorough } else { Tier::Quick };
        let seed = v["seed"].as_u64().unwrap_or(0);
        let Some(def2) = crate::checks::get(def.id, tier) else { return 2 };
        let part2 = def2.parts.iter().find(|p| p.name == part_name).unwrap();
        for shard in 0..NSHARDS {
            let mut ctx = Ctx::new(def.id, tier, seed, shard, NSHARDS);
            ctx.replay = true;
            for r in 0..part2.rounds {
                ctx.begin_part(part2.name);
                (part2.run)(&ctx, r);
            }
            let st = ctx.take_stats();
            for x in &st.violations {
                if x["input"].as_str() == Some(want.as_str()) {
                    println!("VIOLATION property={} replay={}", def.id, path);
                    println!("  msg={}", truncate(x["msg"].as_str().unwrap_or(""), 1000));
                    println!("  input={}", truncate(&want, 1000));
                    return 1;
                }
            }
            for (sig, (_, ex)) in &st.known {
                if *ex == truncate(&want, 300) {
                    println!("KNOWN-FINDING: property={} signature={sig}", def.id);
                    return 0;
                }
            }
        }
        println!("replay: the enumeration no longer fails on this input");
        return 0;
    };
    let input = if v["raw"].as_bool() == Some(true) {
        ReplayInput::Bytes(raw)
    } else if let Some(ch) = v["choices"].as_array() {
        ReplayInput::Choices(ch.iter().map(|x| x.as_u64().unwrap_or(0) as u16).collect())
    } else {
        ReplayInput::Text(v["input"].as_str().unwrap_or("").to_owned())
    };
    let mut ctx = Ctx::new(def.id, Tier::Quick, 0, 0, 1);
    ctx.replay = true;
    ctx.begin_part(part.name);
    let out = match catch(|| replay(&ctx, &input)) {
        Ok(o) => o,
        Err(p) => Err(Failure::new(format!("panic: {p}"), "")),
    };
    match out {
        Ok(()) => {
            println!("replay: the property holds on this case");
            0
        }
        Err(f) => {
            if let Some(k) = f.sig.as_deref().and_then(|s| ctx.is_known(s)) {
                println!("KNOWN-FINDING: property={} signature={} {}", def.id, k.signature, k.what);
                println!("  input={}", truncate(&f.input, 600));
                0
            } else {
                println!("VIOLATION property={} replay={}", def.id, path);
                println!("  msg={}", truncate(&f.msg, 1000));
                println!("  input={}", truncate(&f.input, 1000));
                1
            }
        }
    }
}

/// Run `cargo +nightly fuzz run <target>` with 16 jobs of `runs` executions each, from a fresh
/// corpus seeded with the repository's examples and the token spellings. Returns the report for
/// the evidence file and the crashing inputs (copied under /verif/replays/<id>/).
fn run_fuzz_campaign(id: &str, target: &str, runs: u64, seed: u64) -> (Value, Vec<(String, String)>) {
    let root = verif_root();
    let work = root.join(".work").join("fuzz").join(target);
    let _ = std::fs::remove_dir_all(&work);
    let corpus = work.join("corpus");
    let artifacts = work.join("artifacts");
    if std::fs::create_dir_all(&corpus).is_err() || std::fs::create_dir_all(&artifacts).is_err() {
        return (json!({"error": "cannot create the work directory"}), vec![]);
    }
    let repo = std::env::var("GRAM_REPO_RUNTIME").unwrap_or_else(|_| crate::GRAM_REPO.to_owned());
    if let Ok(dir) = std::fs::read_dir(format!("{repo}/examples")) {
        for e in dir.filter_map(Result::ok) {
            let _ = std::fs::copy(e.path(), corpus.join(e.file_name()));
        }
    }
    let spellings = "x = 1; y : int = x + 2\nif x <= y then (z : type) => z else {w : bool} -> w # c\n f (g 3) * - 4 / 5 == 6 >= 7 > 8 < 9 true false _";
    let _ = std::fs::write(corpus.join("spellings"), spellings);
    let dict = work.join("dict");
    let _ = std::fs::write(&dict, ["bool", "else", "false", "if", "int", "then", "true", "type", "=>", "->", "==", "<=", ">=", ";", "#", "_", "(", ")", "{", "}", ":"].iter().map(|k| format!("\"{k}\"\n")).collect::<String>());
    let out = Command::new("cargo")
        .args(["+nightly", "fuzz", "run", "--sanitizer", "none", target, "--target-dir"])
        .arg(root.join(".target").join("fuzz"))
        .arg("--fuzz-dir")
        .arg(root.join("harness").join("fuzz"))
        .arg(&corpus)
        .arg("--")
        .arg(format!("-runs={runs}"))
        .arg(format!("-seed={}", if seed == 0 { 1 } else { seed % 4_000_000_000 }))
        .args(["-len_control=0", "-max_len=600", "-jobs=16", "-workers=16", "-print_final_stats=1", "-timeout=60", "-rss_limit_mb=4096"])
        .arg(format!("-dict={}", dict.display()))
        .arg(format!("-artifact_prefix={}/", artifacts.display()))
        .current_dir(&work)
        .env("CARGO_NET_OFFLINE", "true")
        .env("GRAM_REPO", &repo)
        .stdin(Stdio::null())
        .output();
    let out = match out {
        Ok(o) => o,
        Err(e) => return (json!({"error": format!("cannot run cargo fuzz: {e}")}), vec![]),
    };
    // Executions are reported in the per-job logs.
    let mut executions = 0u64;
    let mut jobs = 0u64;
    if let Ok(dir) = std::fs::read_dir(&work) {
        for e in dir.filter_map(Result::ok) {
            let name = e.file_name().to_string_lossy().into_owned();
            if name.starts_with("fuzz-") && name.ends_with(".log") {
                jobs += 1;
                if let Ok(log) = std::fs::read_to_string(e.path()) {
                    for line in log.lines() {
                        if let Some(n) = line.strip_prefix("stat::number_of_executed_units:") {
                            executions += n.trim().parse::<u64>().unwrap_or(0);
                        }
                    }
                }
            }
        }
    }
    let mut crashes = vec![];
    if let Ok(dir) = std::fs::read_dir(&artifacts) {
        let replays = root.join("replays").join(id);
        let _ = std::fs::create_dir_all(&replays);
        for e in dir.filter_map(Result::ok) {
            // Only crashes are verdicts; slow units, timeouts and OOMs are not.
            if !e.file_name().to_string_lossy().starts_with("crash-") {
                continue;
            }
            let bytes = std::fs::read(e.path()).unwrap_or_default();
            let dest = replays.join(format!("fuzz-{}", e.file_name().to_string_lossy()));
            let _ = std::fs::write(&dest, &bytes);
            crashes.push((dest.display().to_string(), format!("{:?}", String::from_utf8_lossy(&bytes))));
        }
    }
    let mut report = json!({"target": target, "jobs": jobs, "runs_per_job": runs, "executions": executions, "crashes": crashes.len(), "seed_corpus": "examples + token spellings + dictionary"});
    if executions == 0 && crashes.is_empty() {
        report["error"] = json!(format!("no executions recorded; cargo fuzz said: {}", truncate(&String::from_utf8_lossy(&out.stderr), 600)));
    }
    let _ = std::fs::remove_dir_all(&work);
    (report, crashes)
}
