//! Driving the real `gram` binary (built from the repository's current working tree into
//! /verif/.target, never into /repo/target).

use std::path::{Path, PathBuf};
use std::process::{Command, Stdio};

pub fn repo_dir() -> String {
    std::env::var("GRAM_REPO_RUNTIME").unwrap_or_else(|_| crate::GRAM_REPO.to_owned())
}

fn target_dir() -> PathBuf {
    let root = PathBuf::from(env!("CARGO_MANIFEST_DIR")).parent().unwrap().join(".target");
    if repo_dir() == "/repo" { root.join("gram") } else { root.join("gram-mutant") }
}

pub fn binary() -> PathBuf {
    target_dir().join("release").join("gram")
}

/// Build the CLI from the current tree (a no-op when nothing changed). Called once by the parent
/// process of a check that needs the CLI.
pub fn ensure_built() -> Result<(), String> {
    let out = Command::new("cargo")
        .args(["build", "--release", "--offline", "--manifest-path"])
        .arg(format!("{}/Cargo.toml", repo_dir()))
        .arg("--target-dir")
        .arg(target_dir())
        .env("CARGO_NET_OFFLINE", "true")
        .stdin(Stdio::null())
        .output()
        .map_err(|e| format!("cannot run cargo: {e}"))?;
    if !out.status.success() {
        return Err(format!("building the gram CLI failed:\n{}", String::from_utf8_lossy(&out.stderr)));
    }
    Ok(())
}

#[derive(Clone, Debug, PartialEq, Eq)]
pub struct Run {
    /// Exit code, or 1000 + signal number.
    pub status: i32,
    pub stdout: Vec<u8>,
    pub stderr: Vec<u8>,
}

pub const TIMEOUT_STATUS: i32 = 9999;

/// `gram <sub> <file>` with colours off, a fixed relative path and working directory. A run that
/// takes longer than 10 s is killed and reported with status `TIMEOUT_STATUS` (a divergent program;
/// never a verdict).
pub fn run(sub: &str, dir: &Path, file_name: &str) -> Result<Run, String> {
    use std::io::Read;
    use std::os::unix::process::ExitStatusExt;
    let mut child = Command::new(binary())
        .arg(sub)
        .arg(file_name)
        .current_dir(dir)
        .env("NO_COLOR", "1")
        .env_remove("CLICOLOR_FORCE")
        .stdin(Stdio::null())
        .stdout(Stdio::piped())
        .stderr(Stdio::piped())
        .spawn()
        .map_err(|e| format!("cannot run {}: {e}", binary().display()))?;
    let mut out = child.stdout.take().unwrap();
    let mut err = child.stderr.take().unwrap();
    let t_out = std::thread::spawn(move || {
        let mut v = vec![];
        let _ = out.read_to_end(&mut v);
        v
    });
    let t_err = std::thread::spawn(move || {
        let mut v = vec![];
        let _ = err.read_to_end(&mut v);
        v
    });
    let deadline = std::time::Instant::now() + std::time::Duration::from_secs(10);
    let status = loop {
        match child.try_wait() {
            Ok(Some(s)) => break s.code().unwrap_or_else(|| 1000 + s.signal().unwrap_or(0)),
            Ok(None) => {
                if std::time::Instant::now() > deadline {
                    let _ = child.kill();
                    let _ = child.wait();
                    break TIMEOUT_STATUS;
                }
                std::thread::sleep(std::time::Duration::from_millis(2));
            }
            Err(e) => return Err(format!("waiting for gram failed: {e}")),
        }
    };
    Ok(Run { status, stdout: t_out.join().unwrap_or_default(), stderr: t_err.join().unwrap_or_default() })
}

/// A private scratch directory for one worker (removed by `Drop`).
pub struct Scratch {
    pub dir: PathBuf,
}

impl Scratch {
    pub fn new(tag: &str) -> Scratch {
        let root = std::env::var_os("GV_SCRATCH_ROOT").map_or_else(std::env::temp_dir, PathBuf::from);
        let dir = root.join(format!("gv-{tag}-{}", std::process::id()));
        let _ = std::fs::remove_dir_all(&dir);
        std::fs::create_dir_all(&dir).expect("create scratch dir");
        Scratch { dir }
    }

    pub fn write(&self, name: &str, bytes: &[u8]) {
        std::fs::write(self.dir.join(name), bytes).expect("write scratch file");
    }
}

impl Drop for Scratch {
    fn drop(&mut self) {
        let _ = std::fs::remove_dir_all(&self.dir);
    }
}
