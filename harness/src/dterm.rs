//! `D`: the harness's own mirror of gram's de Bruijn terms (hole-free unless `Hole` is used), with
//! conversions from / to `term::Term`, full structural equality (annotations included) and a
//! size-bounded enumerator.

use crate::term::{Term, Variant};
use num_bigint::BigInt;
use std::rc::Rc;

#[derive(Clone, Copy, PartialEq, Eq, Debug, Hash, PartialOrd, Ord)]
pub enum Op {
    Add,
    Sub,
    Mul,
    Div,
    Lt,
    Le,
    Eq,
    Gt,
    Ge,
}

pub const OPS: [Op; 9] = [Op::Add, Op::Sub, Op::Mul, Op::Div, Op::Lt, Op::Le, Op::Eq, Op::Gt, Op::Ge];

impl Op {
    pub fn sym(self) -> &'static str {
        match self {
            Op::Add => "+",
            Op::Sub => "-",
            Op::Mul => "*",
            Op::Div => "/",
            Op::Lt => "<",
            Op::Le => "<=",
            Op::Eq => "==",
            Op::Gt => ">",
            Op::Ge => ">=",
        }
    }
    pub fn is_arith(self) -> bool {
        matches!(self, Op::Add | Op::Sub | Op::Mul | Op::Div)
    }
}

#[derive(Clone, PartialEq, Eq, Debug, Hash)]
pub enum D {
    Type,
    Int,
    Bool,
    True,
    False,
    Lit(BigInt),
    Var(usize),
    /// An unresolved hole (identity not tracked here).
    Hole,
    Lam(bool, Box<D>, Box<D>),
    Pi(bool, Box<D>, Box<D>),
    App(Box<D>, Box<D>),
    Let(Vec<(D, D)>, Box<D>),
    Neg(Box<D>),
    Bin(Op, Box<D>, Box<D>),
    If(Box<D>, Box<D>, Box<D>),
}

fn t(variant: Variant<'static>) -> Term<'static> {
    Term { source_range: None, variant }
}

impl D {
    pub fn lit(n: i64) -> D {
        D::Lit(BigInt::from(n))
    }

    pub fn size(&self) -> usize {
        match self {
            D::Lam(_, a, b) | D::Pi(_, a, b) | D::App(a, b) | D::Bin(_, a, b) => 1 + a.size() + b.size(),
            D::Let(defs, body) => 1 + defs.iter().map(|(a, d)| a.size() + d.size()).sum::<usize>() + body.size(),
            D::Neg(a) => 1 + a.size(),
            D::If(a, b, c) => 1 + a.size() + b.size() + c.size(),
            _ => 1,
        }
    }

    /// Does the term contain a binder (lambda, pi or group)?
    pub fn has_binder(&self) -> bool {
        match self {
            D::Lam(..) | D::Pi(..) | D::Let(..) => true,
            D::App(a, b) | D::Bin(_, a, b) => a.has_binder() || b.has_binder(),
            D::Neg(a) => a.has_binder(),
            D::If(a, b, c) => a.has_binder() || b.has_binder() || c.has_binder(),
            _ => false,
        }
    }

    pub fn has_multi_let(&self) -> bool {
        match self {
            D::Let(defs, body) => defs.len() >= 2 || defs.iter().any(|(a, d)| a.has_multi_let() || d.has_multi_let()) || body.has_multi_let(),
            D::Lam(_, a, b) | D::Pi(_, a, b) | D::App(a, b) | D::Bin(_, a, b) => a.has_multi_let() || b.has_multi_let(),
            D::Neg(a) => a.has_multi_let(),
            D::If(a, b, c) => a.has_multi_let() || b.has_multi_let() || c.has_multi_let(),
            _ => false,
        }
    }

    /// Free indices (relative to the term's own root), computed directly on the mirror type.
    pub fn free(&self, depth: usize, out: &mut std::collections::BTreeSet<usize>) {
        match self {
            D::Var(i) => {
                if *i >= depth {
                    out.insert(*i - depth);
                }
            }
            D::Lam(_, a, b) | D::Pi(_, a, b) => {
                a.free(depth, out);
                b.free(depth + 1, out);
            }
            D::App(a, b) | D::Bin(_, a, b) => {
                a.free(depth, out);
                b.free(depth, out);
            }
            D::Let(defs, body) => {
                let d = depth + defs.len();
                for (a, x) in defs {
                    a.free(d, out);
                    x.free(d, out);
                }
                body.free(d, out);
            }
            D::Neg(a) => a.free(depth, out),
            D::If(a, b, c) => {
                a.free(depth, out);
                b.free(depth, out);
                c.free(depth, out);
            }
            _ => {}
        }
    }

    pub fn to_gram(&self) -> Term<'static> {
        let rc = |d: &D| Rc::new(d.to_gram());
        t(match self {
            D::Type => Variant::Type,
            D::Int => Variant::Integer,
            D::Bool => Variant::Boolean,
            D::True => Variant::True,
            D::False => Variant::False,
            D::Lit(n) => Variant::IntegerLiteral(n.clone()),
            D::Var(i) => Variant::Variable("v", *i),
            D::Hole => Variant::Unifier(Rc::new(std::cell::RefCell::new(None)), 0),
            D::Lam(im, a, b) => Variant::Lambda("x", *im, rc(a), rc(b)),
            D::Pi(im, a, b) => Variant::Pi("x", *im, rc(a), rc(b)),
            D::App(a, b) => Variant::Application(rc(a), rc(b)),
            D::Let(defs, body) => Variant::Let(defs.iter().map(|(a, d)| ("d", rc(a), rc(d))).collect(), rc(body)),
            D::Neg(a) => Variant::Negation(rc(a)),
            D::Bin(op, a, b) => {
                let (a, b) = (rc(a), rc(b));
                match op {
                    Op::Add => Variant::Sum(a, b),
                    Op::Sub => Variant::Difference(a, b),
                    Op::Mul => Variant::Product(a, b),
                    Op::Div => Variant::Quotient(a, b),
                    Op::Lt => Variant::LessThan(a, b),
                    Op::Le => Variant::LessThanOrEqualTo(a, b),
                    Op::Eq => Variant::EqualTo(a, b),
                    Op::Gt => Variant::GreaterThan(a, b),
                    Op::Ge => Variant::GreaterThanOrEqualTo(a, b),
                }
            }
            D::If(a, b, c) => Variant::If(rc(a), rc(b), rc(c)),
        })
    }

    /// Convert a gram term, following resolved holes by *re-reading* them at the shallower depth
    /// they were written at (the shift is applied with `D::shift_free`, the harness's own code).
    pub fn from_gram(term: &Term) -> D {
        let bx = |x: &Rc<Term>| Box::new(D::from_gram(x));
        match &term.variant {
            Variant::Unifier(cell, shift) => {
                let content = cell.borrow().clone();
                match content {
                    Some(inner) => D::from_gram(&inner).shift_free(0, *shift),
                    None => D::Hole,
                }
            }
            Variant::Type => D::Type,
            Variant::Integer => D::Int,
            Variant::Boolean => D::Bool,
            Variant::True => D::True,
            Variant::False => D::False,
            Variant::IntegerLiteral(n) => D::Lit(n.clone()),
            Variant::Variable(_, i) => D::Var(*i),
            Variant::Lambda(_, im, a, b) => D::Lam(*im, bx(a), bx(b)),
            Variant::Pi(_, im, a, b) => D::Pi(*im, bx(a), bx(b)),
            Variant::Application(a, b) => D::App(bx(a), bx(b)),
            Variant::Let(defs, body) => D::Let(defs.iter().map(|(_, a, d)| (D::from_gram(a), D::from_gram(d))).collect(), bx(body)),
            Variant::Negation(a) => D::Neg(bx(a)),
            Variant::Sum(a, b) => D::Bin(Op::Add, bx(a), bx(b)),
            Variant::Difference(a, b) => D::Bin(Op::Sub, bx(a), bx(b)),
            Variant::Product(a, b) => D::Bin(Op::Mul, bx(a), bx(b)),
            Variant::Quotient(a, b) => D::Bin(Op::Div, bx(a), bx(b)),
            Variant::LessThan(a, b) => D::Bin(Op::Lt, bx(a), bx(b)),
            Variant::LessThanOrEqualTo(a, b) => D::Bin(Op::Le, bx(a), bx(b)),
            Variant::EqualTo(a, b) => D::Bin(Op::Eq, bx(a), bx(b)),
            Variant::GreaterThan(a, b) => D::Bin(Op::Gt, bx(a), bx(b)),
            Variant::GreaterThanOrEqualTo(a, b) => D::Bin(Op::Ge, bx(a), bx(b)),
            Variant::If(a, b, c) => D::If(bx(a), bx(b), bx(c)),
        }
    }

    /// Add `amount` to every free index >= cutoff (harness-side, used only when reading resolved
    /// holes; never as an oracle for C11, whose oracle is the named model).
    pub fn shift_free(&self, cutoff: usize, amount: usize) -> D {
        if amount == 0 {
            return self.clone();
        }
        let b = |x: &D, c: usize| Box::new(x.shift_free(c, amount));
        match self {
            D::Var(i) => D::Var(if *i >= cutoff { *i + amount } else { *i }),
            D::Lam(im, a, x) => D::Lam(*im, b(a, cutoff), b(x, cutoff + 1)),
            D::Pi(im, a, x) => D::Pi(*im, b(a, cutoff), b(x, cutoff + 1)),
            D::App(a, x) => D::App(b(a, cutoff), b(x, cutoff)),
            D::Bin(op, a, x) => D::Bin(*op, b(a, cutoff), b(x, cutoff)),
            D::Let(defs, body) => {
                let c = cutoff + defs.len();
                D::Let(defs.iter().map(|(a, d)| (a.shift_free(c, amount), d.shift_free(c, amount))).collect(), b(body, c))
            }
            D::Neg(a) => D::Neg(b(a, cutoff)),
            D::If(a, x, y) => D::If(b(a, cutoff), b(x, cutoff), b(y, cutoff)),
            other => other.clone(),
        }
    }

    /// Merge every group that stands in the body of a group into that group, the way gram's
    /// parser reads `x = a; y = b; body`: `Let(outer, Let(inner, body))` becomes
    /// `Let(outer shifted up by |inner| ++ inner, body)` (in the merged group the outer definitions
    /// sit |inner| binders deeper). Used only to recognise one recorded finding of C16.
    pub fn flatten_body_groups(&self) -> D {
        let b = |x: &D| Box::new(x.flatten_body_groups());
        match self {
            D::Lam(im, a, x) => D::Lam(*im, b(a), b(x)),
            D::Pi(im, a, x) => D::Pi(*im, b(a), b(x)),
            D::App(a, x) => D::App(b(a), b(x)),
            D::Bin(op, a, x) => D::Bin(*op, b(a), b(x)),
            D::Neg(a) => D::Neg(b(a)),
            D::If(a, x, y) => D::If(b(a), b(x), b(y)),
            D::Let(defs, body) => {
                let mut all: Vec<(D, D)> = defs.iter().map(|(a, d)| (a.flatten_body_groups(), d.flatten_body_groups())).collect();
                let mut body = body.flatten_body_groups();
                while let D::Let(inner, inner_body) = body {
                    let n = inner.len();
                    all = all.iter().map(|(a, d)| (a.shift_free(0, n), d.shift_free(0, n))).collect();
                    all.extend(inner);
                    body = *inner_body;
                }
                D::Let(all, Box::new(body))
            }
            other => other.clone(),
        }
    }

    pub fn show(&self) -> String {
        match self {
            D::Type => "type".into(),
            D::Int => "int".into(),
            D::Bool => "bool".into(),
            D::True => "true".into(),
            D::False => "false".into(),
            D::Lit(n) => n.to_string(),
            D::Var(i) => format!("#{i}"),
            D::Hole => "_".into(),
            D::Lam(im, a, b) => format!("({}λ:{}. {})", if *im { "i" } else { "" }, a.show(), b.show()),
            D::Pi(im, a, b) => format!("({}Π:{}. {})", if *im { "i" } else { "" }, a.show(), b.show()),
            D::App(a, b) => format!("({} {})", a.show(), b.show()),
            D::Let(defs, body) => format!(
                "(let {} in {})",
                defs.iter().map(|(a, d)| format!("[:{} = {}]", a.show(), d.show())).collect::<Vec<_>>().join(" "),
                body.show()
            ),
            D::Neg(a) => format!("(-{})", a.show()),
            D::Bin(op, a, b) => format!("({} {} {})", a.show(), op.sym(), b.show()),
            D::If(a, b, c) => format!("(if {} then {} else {})", a.show(), b.show(), c.show()),
        }
    }
}

/// All hole-free terms of exactly `size` nodes over `leaves`, every binary/ternary former, and
/// one-definition groups. Memoised by the caller through `Enumerator`.
pub struct Enumerator {
    pub leaves: Vec<D>,
    pub by_size: Vec<Vec<D>>, // by_size[n] = terms of size n (index 0 unused)
}

impl Enumerator {
    pub fn new(leaves: Vec<D>) -> Self {
        Enumerator { by_size: vec![vec![], leaves.clone()], leaves }
    }

    pub fn upto(&mut self, max: usize) {
        while self.by_size.len() <= max {
            let n = self.by_size.len();
            let mut out = vec![];
            // Unary.
            for a in &self.by_size[n - 1] {
                out.push(D::Neg(Box::new(a.clone())));
            }
            // Binary.
            for i in 1..n - 1 {
                let j = n - 1 - i;
                if j == 0 {
                    continue;
                }
                for a in &self.by_size[i] {
                    for b in &self.by_size[j] {
                        let (ba, bb) = (Box::new(a.clone()), Box::new(b.clone()));
                        out.push(D::Lam(false, ba.clone(), bb.clone()));
                        out.push(D::Lam(true, ba.clone(), bb.clone()));
                        out.push(D::Pi(false, ba.clone(), bb.clone()));
                        out.push(D::Pi(true, ba.clone(), bb.clone()));
                        out.push(D::App(ba.clone(), bb.clone()));
                        for op in OPS {
                            out.push(D::Bin(op, ba.clone(), bb.clone()));
                        }
                    }
                }
            }
            // Ternary: `if`, and a group of one definition (annotation, definition, body).
            if n >= 4 {
                for i in 1..n - 2 {
                    for j in 1..n - 1 - i {
                        let k = n - 1 - i - j;
                        if k == 0 {
                            continue;
                        }
                        for a in &self.by_size[i] {
                            for b in &self.by_size[j] {
                                for c in &self.by_size[k] {
                                    out.push(D::If(Box::new(a.clone()), Box::new(b.clone()), Box::new(c.clone())));
                                    out.push(D::Let(vec![(a.clone(), b.clone())], Box::new(c.clone())));
                                }
                            }
                        }
                    }
                }
            }
            self.by_size.push(out);
        }
    }
}
