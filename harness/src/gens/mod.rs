pub mod layout;
pub mod prog;
pub mod syn;
pub mod mutate;
