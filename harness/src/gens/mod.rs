pub mod syn;
