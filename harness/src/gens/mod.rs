pub mod syn;
pub mod layout;
