//! Mutators on surface trees: type-breaking perturbations (most results are ill typed; the
//! reference checker decides), and a reference one-step reducer.

use crate::sast::{self, Def, Op, PLACEHOLDER, S};
use crate::util::Ch;
use num_bigint::BigInt;

pub fn count_nodes(s: &S) -> usize {
    s.size()
}

/// Apply `f` to the `k`-th node in pre-order (annotations and definitions included).
pub fn map_nth(s: &S, k: &mut usize, f: &mut dyn FnMut(&S) -> S) -> S {
    if *k == 0 {
        *k = usize::MAX;
        return f(s);
    }
    if *k != usize::MAX {
        *k -= 1;
    }
    let mut m = |x: &S, k: &mut usize| Box::new(map_nth(x, k, f));
    match s {
        S::Lam { name, implicit, ann, body } => {
            let ann = ann.as_ref().map(|a| m(a, k));
            S::Lam { name: name.clone(), implicit: *implicit, ann, body: m(body, k) }
        }
        S::Pi { name, implicit, dom, cod } => {
            let dom = m(dom, k);
            S::Pi { name: name.clone(), implicit: *implicit, dom, cod: m(cod, k) }
        }
        S::App(a, b) => {
            let a = m(a, k);
            S::App(a, m(b, k))
        }
        S::Bin(op, a, b) => {
            let a = m(a, k);
            S::Bin(*op, a, m(b, k))
        }
        S::Neg(a) => S::Neg(m(a, k)),
        S::Paren(a) => S::Paren(m(a, k)),
        S::If(a, b, c) => {
            let a = m(a, k);
            let b = m(b, k);
            S::If(a, b, m(c, k))
        }
        S::Let { defs, body } => {
            let defs = defs
                .iter()
                .map(|d| {
                    let ann = d.ann.as_ref().map(|a| *m(a, k));
                    Def { name: d.name.clone(), ann, def: *m(&d.def, k) }
                })
                .collect();
            S::Let { defs, body: m(body, k) }
        }
        other => other.clone(),
    }
}

/// One type-breaking perturbation at a random node.
pub fn perturb(s: &S, ch: &mut Ch) -> (S, &'static str) {
    let n = count_nodes(s);
    let mut k = ch.pick(n);
    let kind = ch.pick(12);
    let label = [
        "replaced by true", "replaced by 1", "replaced by int", "replaced by type", "replaced by a lambda", "wrapped in + 1",
        "wrapped as a condition", "applied to 1", "applied to itself", "negated", "compared with 0", "replaced by a function type",
    ][kind];
    let mut f = |x: &S| -> S {
        let x = x.clone();
        match kind {
            0 => S::True,
            1 => sast::lit(1),
            2 => S::Int,
            3 => S::Type,
            4 => sast::lam("mutp", Some(S::Int), sast::var("mutp")),
            5 => sast::bin(Op::Add, x, sast::lit(1)),
            6 => sast::ite(x, sast::lit(1), sast::lit(2)),
            7 => sast::app(x, sast::lit(1)),
            8 => sast::app(x.clone(), x),
            9 => S::Neg(Box::new(x)),
            10 => sast::bin(Op::Lt, x, sast::lit(0)),
            _ => sast::arrow(S::Int, S::Bool),
        }
    };
    (map_nth(s, &mut k, &mut f), label)
}

/// Replace every occurrence of variable `name` in `s` by `u` (binder names in generated programs
/// are unique, so no capture can occur on the first step; the caller re-checks scoping).
pub fn subst_var(s: &S, name: &str, u: &S) -> S {
    let r = |x: &S| Box::new(subst_var(x, name, u));
    match s {
        S::Var(n) if n == name => S::Paren(Box::new(u.clone())),
        S::Lam { name: n2, implicit, ann, body } => S::Lam { name: n2.clone(), implicit: *implicit, ann: ann.as_ref().map(|a| r(a)), body: r(body) },
        S::Pi { name: n2, implicit, dom, cod } => S::Pi { name: n2.clone(), implicit: *implicit, dom: r(dom), cod: r(cod) },
        S::App(a, b) => S::App(r(a), r(b)),
        S::Bin(op, a, b) => S::Bin(*op, r(a), r(b)),
        S::Neg(a) => S::Neg(r(a)),
        S::Paren(a) => S::Paren(r(a)),
        S::If(a, b, c) => S::If(r(a), r(b), r(c)),
        S::Let { defs, body } => S::Let {
            defs: defs.iter().map(|d| Def { name: d.name.clone(), ann: d.ann.as_ref().map(|a| subst_var(a, name, u)), def: subst_var(&d.def, name, u) }).collect(),
            body: r(body),
        },
        other => other.clone(),
    }
}

fn lit_of(s: &S) -> Option<BigInt> {
    match s.strip() {
        S::Lit(n) => Some(n.clone()),
        S::Neg(x) => match x.strip() {
            S::Lit(n) => Some(-n.clone()),
            _ => None,
        },
        _ => None,
    }
}

fn lit_s(n: BigInt) -> S {
    if n < BigInt::from(0) { S::Paren(Box::new(S::Neg(Box::new(S::Lit(-n))))) } else { S::Lit(n) }
}

/// Is this node a redex of the reference reducer? Returns the contractum.
pub fn contract(s: &S) -> Option<(S, &'static str)> {
    match s {
        S::Bin(op, a, b) => {
            let (x, y) = (lit_of(a)?, lit_of(b)?);
            let bool_s = |c: bool| if c { S::True } else { S::False };
            Some((
                match op {
                    Op::Add => lit_s(x + y),
                    Op::Sub => lit_s(x - y),
                    Op::Mul => lit_s(x * y),
                    Op::Div => {
                        if y == BigInt::from(0) {
                            return None;
                        }
                        lit_s(x / y)
                    }
                    Op::Lt => bool_s(x < y),
                    Op::Le => bool_s(x <= y),
                    Op::Eq => bool_s(x == y),
                    Op::Gt => bool_s(x > y),
                    Op::Ge => bool_s(x >= y),
                },
                "arithmetic / comparison on literals",
            ))
        }
        S::If(c, t, e) => match c.strip() {
            S::True => Some((S::Paren(t.clone()), "if on true")),
            S::False => Some((S::Paren(e.clone()), "if on false")),
            _ => None,
        },
        S::App(f, a) => match f.strip() {
            S::Lam { name, body, .. } if name != PLACEHOLDER => Some((S::Paren(Box::new(subst_var(body, name, a))), "beta")),
            _ => None,
        },
        _ => None,
    }
}

pub fn count_redexes(s: &S) -> usize {
    let mut n = usize::from(contract(s).is_some());
    match s {
        S::Lam { ann, body, .. } => n += ann.as_ref().map_or(0, |a| count_redexes(a)) + count_redexes(body),
        S::Pi { dom, cod, .. } => n += count_redexes(dom) + count_redexes(cod),
        S::App(a, b) | S::Bin(_, a, b) => n += count_redexes(a) + count_redexes(b),
        S::Neg(a) | S::Paren(a) => n += count_redexes(a),
        S::If(a, b, c) => n += count_redexes(a) + count_redexes(b) + count_redexes(c),
        S::Let { defs, body } => n += defs.iter().map(|d| d.ann.as_ref().map_or(0, count_redexes) + count_redexes(&d.def)).sum::<usize>() + count_redexes(body),
        _ => {}
    }
    n
}

/// Contract the `k`-th redex (pre-order).
pub fn reduce_nth(s: &S, k: &mut usize, kind: &mut &'static str) -> S {
    if let Some((c, what)) = contract(s) {
        if *k == 0 {
            *k = usize::MAX;
            *kind = what;
            return c;
        }
        if *k != usize::MAX {
            *k -= 1;
        }
    }
    let mut r = |x: &S, k: &mut usize| Box::new(reduce_nth(x, k, kind));
    match s {
        S::Lam { name, implicit, ann, body } => {
            let ann = ann.as_ref().map(|a| r(a, k));
            S::Lam { name: name.clone(), implicit: *implicit, ann, body: r(body, k) }
        }
        S::Pi { name, implicit, dom, cod } => {
            let dom = r(dom, k);
            S::Pi { name: name.clone(), implicit: *implicit, dom, cod: r(cod, k) }
        }
        S::App(a, b) => {
            let a = r(a, k);
            S::App(a, r(b, k))
        }
        S::Bin(op, a, b) => {
            let a = r(a, k);
            S::Bin(*op, a, r(b, k))
        }
        S::Neg(a) => S::Neg(r(a, k)),
        S::Paren(a) => S::Paren(r(a, k)),
        S::If(a, b, c) => {
            let a = r(a, k);
            let b = r(b, k);
            S::If(a, b, r(c, k))
        }
        S::Let { defs, body } => {
            let defs = defs.iter().map(|d| Def { name: d.name.clone(), ann: d.ann.as_ref().map(|a| *r(a, k)), def: *r(&d.def, k) }).collect();
            S::Let { defs, body: r(body, k) }
        }
        other => other.clone(),
    }
}

/// Variable occurrences (in `map_nth`'s pre-order) together with the other names in scope there.
pub fn variable_sites(s: &S, scope: &mut Vec<String>, index: &mut usize, out: &mut Vec<(usize, Vec<String>)>) {
    let me = *index;
    *index += 1;
    match s {
        S::Var(n) if n != PLACEHOLDER => {
            let others: Vec<String> = scope.iter().filter(|x| *x != n).cloned().collect();
            if !others.is_empty() {
                out.push((me, others));
            }
        }
        S::Lam { name, ann, body, .. } => {
            if let Some(a) = ann {
                variable_sites(a, scope, index, out);
            }
            scope.push(name.clone());
            variable_sites(body, scope, index, out);
            scope.pop();
        }
        S::Pi { name, dom, cod, .. } => {
            variable_sites(dom, scope, index, out);
            scope.push(name.clone().unwrap_or_else(|| PLACEHOLDER.to_owned()));
            variable_sites(cod, scope, index, out);
            scope.pop();
        }
        S::App(a, b) | S::Bin(_, a, b) => {
            variable_sites(a, scope, index, out);
            variable_sites(b, scope, index, out);
        }
        S::Neg(a) | S::Paren(a) => variable_sites(a, scope, index, out),
        S::If(a, b, c) => {
            variable_sites(a, scope, index, out);
            variable_sites(b, scope, index, out);
            variable_sites(c, scope, index, out);
        }
        S::Let { defs, body } => {
            let base = scope.len();
            scope.extend(defs.iter().map(|d| d.name.clone()));
            for d in defs {
                if let Some(a) = &d.ann {
                    variable_sites(a, scope, index, out);
                }
                variable_sites(&d.def, scope, index, out);
            }
            variable_sites(body, scope, index, out);
            scope.truncate(base);
        }
        _ => {}
    }
}

/// Replace one variable occurrence by another variable that is in scope at that point.
pub fn swap_variable(s: &S, ch: &mut Ch) -> Option<S> {
    swap_variable_with(s, ch, false)
}

/// `allow_hole`: the anonymous parameter of a function type `A -> B` counts as "in scope" in the
/// codomain, so that a variable there may become `_` - a hole written under a binder of a type.
/// That is how the recorded finding `hole-written-under-a-binder-loses-the-shift-of-its-type` was
/// first met (by accident: the placeholder stood in the scope list). It crashes the checker, so
/// only the checks that list the finding ask for it (a sixteenth of their swaps); everywhere else
/// it is excluded by construction.
pub fn swap_variable_with(s: &S, ch: &mut Ch, allow_hole: bool) -> Option<S> {
    let mut sites = vec![];
    variable_sites(s, &mut vec![], &mut 0, &mut sites);
    let hole_wanted = allow_hole && ch.chance(1, 16);
    let sites: Vec<(usize, Vec<String>)> = sites
        .into_iter()
        .map(|(i, others)| (i, others.into_iter().filter(|n| (n == PLACEHOLDER) == hole_wanted).collect::<Vec<_>>()))
        .filter(|(_, others)| !others.is_empty())
        .collect();
    if sites.is_empty() {
        return None;
    }
    let (site, others) = &sites[ch.pick(sites.len())];
    let new = others[others.len() - 1 - ch.pick(others.len())].clone();
    let mut k = *site;
    Some(map_nth(s, &mut k, &mut |_| S::Var(new.clone())))
}

/// Indices, in `map_nth`'s pre-order, of the groups with two or more definitions.
pub fn multi_def_groups(s: &S) -> Vec<usize> {
    fn go(s: &S, idx: &mut usize, out: &mut Vec<usize>) {
        if let S::Let { defs, .. } = s {
            if defs.len() >= 2 {
                out.push(*idx);
            }
        }
        *idx += 1;
        match s {
            S::Lam { ann, body, .. } => {
                if let Some(a) = ann {
                    go(a, idx, out);
                }
                go(body, idx, out);
            }
            S::Pi { dom, cod, .. } => {
                go(dom, idx, out);
                go(cod, idx, out);
            }
            S::App(a, b) | S::Bin(_, a, b) => {
                go(a, idx, out);
                go(b, idx, out);
            }
            S::Neg(a) | S::Paren(a) => go(a, idx, out),
            S::If(a, b, c) => {
                go(a, idx, out);
                go(b, idx, out);
                go(c, idx, out);
            }
            S::Let { defs, body } => {
                for d in defs {
                    if let Some(a) = &d.ann {
                        go(a, idx, out);
                    }
                    go(&d.def, idx, out);
                }
                go(body, idx, out);
            }
            _ => {}
        }
    }
    let mut out = vec![];
    go(s, &mut 0, &mut out);
    out
}


/// Put (possibly doubled) parentheses around the *tail* of a group of two or more definitions:
/// `x = a; y = b; body` becomes `x = a; (y = b; body)`. A group is one node of `S`, so `map_nth`
/// cannot do this. None if the term has no such group.
pub fn paren_group_tail(s: &S, ch: &mut Ch) -> Option<S> {
    let sites = multi_def_groups(s);
    if sites.is_empty() {
        return None;
    }
    let mut k = sites[ch.pick(sites.len())];
    let cut = ch.pick(64);
    let depth = 1 + ch.pick(2);
    Some(map_nth(s, &mut k, &mut |x| match x {
        S::Let { defs, body } if defs.len() >= 2 => {
            let i = 1 + cut * (defs.len() - 1) / 64;
            let mut tail = S::Let { defs: defs[i..].to_vec(), body: body.clone() };
            for _ in 0..depth {
                tail = S::Paren(Box::new(tail));
            }
            S::Let { defs: defs[..i].to_vec(), body: Box::new(tail) }
        }
        other => other.clone(),
    }))
}

/// A group made one definition longer or shorter such that the body keeps its de Bruijn shape:
/// `a = type; a` becomes `a = type; b = int; b` (the body names the new last definition), or an
/// unused definition is appended / the unused last definition is dropped. The two programs differ
/// in meaning or at least in the length of a group. None if the term has no group.
pub fn group_length_variant(s: &S, ch: &mut Ch) -> Option<S> {
    fn groups(s: &S, idx: &mut usize, out: &mut Vec<usize>) {
        if matches!(s, S::Let { .. }) {
            out.push(*idx);
        }
        *idx += 1;
        match s {
            S::Lam { ann, body, .. } => {
                if let Some(a) = ann {
                    groups(a, idx, out);
                }
                groups(body, idx, out);
            }
            S::Pi { dom, cod, .. } => {
                groups(dom, idx, out);
                groups(cod, idx, out);
            }
            S::App(a, b) | S::Bin(_, a, b) => {
                groups(a, idx, out);
                groups(b, idx, out);
            }
            S::Neg(a) | S::Paren(a) => groups(a, idx, out),
            S::If(a, b, c) => {
                groups(a, idx, out);
                groups(b, idx, out);
                groups(c, idx, out);
            }
            S::Let { defs, body } => {
                for d in defs {
                    if let Some(a) = &d.ann {
                        groups(a, idx, out);
                    }
                    groups(&d.def, idx, out);
                }
                groups(body, idx, out);
            }
            _ => {}
        }
    }
    fn mentions(s: &S, name: &str) -> bool {
        match s {
            S::Var(n) => n == name,
            S::Lam { ann, body, .. } => ann.as_ref().is_some_and(|a| mentions(a, name)) || mentions(body, name),
            S::Pi { dom, cod, .. } => mentions(dom, name) || mentions(cod, name),
            S::App(a, b) | S::Bin(_, a, b) => mentions(a, name) || mentions(b, name),
            S::Neg(a) | S::Paren(a) => mentions(a, name),
            S::If(a, b, c) => mentions(a, name) || mentions(b, name) || mentions(c, name),
            S::Let { defs, body } => defs.iter().any(|d| d.ann.as_ref().is_some_and(|a| mentions(a, name)) || mentions(&d.def, name)) || mentions(body, name),
            _ => false,
        }
    }
    let mut sites = vec![];
    groups(s, &mut 0, &mut sites);
    if sites.is_empty() {
        return None;
    }
    let mut k = sites[ch.pick(sites.len())];
    let how = ch.pick(3);
    let what = ch.pick(5);
    let annotated = ch.chance(1, 2);
    Some(map_nth(s, &mut k, &mut |x| match x {
        S::Let { defs, body } => {
            let Some(last) = defs.last() else { return body.as_ref().clone() };
            let others_mention_last = defs.iter().any(|d| d.ann.as_ref().is_some_and(|a| mentions(a, &last.name)) || mentions(&d.def, &last.name));
            if how == 0 && defs.len() >= 2 && !others_mention_last && !mentions(body, &last.name) {
                return S::Let { defs: defs[..defs.len() - 1].to_vec(), body: body.clone() };
            }
            let fresh = "zq9_".to_owned();
            let (ann, def) = match what {
                0 => (S::Type, S::Int),
                1 => (S::Type, S::Bool),
                2 => (S::Int, sast::lit(0)),
                3 => (S::Bool, S::True),
                _ => (S::Type, sast::arrow(S::Int, S::Int)),
            };
            let mut defs2 = defs.clone();
            defs2.push(Def { name: fresh.clone(), ann: if annotated { Some(ann) } else { None }, def });
            // The body names the last definition: let it name the new last definition instead,
            // so that its index stays the same.
            let body2 = if matches!(body.strip(), S::Var(n) if *n == last.name) && how != 1 { Box::new(sast::var(&fresh)) } else { body.clone() };
            S::Let { defs: defs2, body: body2 }
        }
        other => other.clone(),
    }))
}
