//! G-syn: untyped generator of surface trees with valid scoping, covering every
//! (parent position x child form) pair; identifier pools; scope-breaking perturbations.

use crate::sast::{Def, Op, PLACEHOLDER, S};
use crate::util::Ch;
use num_bigint::BigInt;

pub const NAME_POOL: [&str; 20] = [
    "x", "y", "f", "g", "a", "b", "n", "f0", "iff", "int2", "type_", "thenx", "_a", "elsee", "é", "λx", "名", "x٣",
    "boolean", "t_",
];

#[derive(Clone, Debug)]
pub struct SynCfg {
    /// Probability (in 1/16) of wrapping a generated subterm in redundant parentheses.
    pub paren_16: u32,
    /// Allow `_` as an expression and as a binder name.
    pub holes: bool,
    /// Allow omitted annotations.
    pub omit_annotations: bool,
    /// Names usable by binders.
    pub pool: Vec<&'static str>,
    /// Keep definition groups within the shapes the definition-order check accepts.
    pub safe_order: bool,
}

impl Default for SynCfg {
    fn default() -> Self {
        SynCfg { paren_16: 1, holes: true, omit_annotations: true, pool: NAME_POOL.to_vec(), safe_order: true }
    }
}

pub struct SynGen<'c, 'd> {
    pub ch: &'c mut Ch<'d>,
    pub cfg: SynCfg,
    /// Names in scope, outermost first.
    pub scope: Vec<String>,
    /// Names that must not be mentioned in the term being generated (definition-order safety).
    banned: Vec<String>,
    pub binders_made: usize,
}

pub fn literal(ch: &mut Ch) -> BigInt {
    match ch.pick(8) {
        0 => BigInt::from(0),
        1 => BigInt::from(1),
        2 => BigInt::from(ch.pick(10)),
        3 => BigInt::from(ch.pick(1000)),
        4 => BigInt::from(2147483647u64 + ch.pick(3) as u64),
        5 => BigInt::from(9223372036854775807u64) + BigInt::from(ch.pick(3)),
        6 => BigInt::from(u64::MAX) + BigInt::from(ch.pick(3)),
        _ => {
            let mut n = BigInt::from(1 + ch.pick(9));
            for _ in 0..(20 + ch.pick(40)) {
                n = n * 10 + BigInt::from(ch.pick(10));
            }
            n
        }
    }
}

impl<'c, 'd> SynGen<'c, 'd> {
    pub fn new(ch: &'c mut Ch<'d>, cfg: SynCfg, context: &[&str]) -> Self {
        SynGen { ch, cfg, scope: context.iter().map(|s| (*s).to_owned()).collect(), banned: vec![], binders_made: 0 }
    }

    fn fresh_name(&mut self) -> String {
        // Prefer pool names not in scope (sibling scopes re-use names); fall back to numbered ones.
        let start = self.ch.pick(self.cfg.pool.len());
        for k in 0..self.cfg.pool.len() {
            let n = self.cfg.pool[(start + k) % self.cfg.pool.len()];
            if !self.scope.iter().any(|s| s == n) {
                return n.to_owned();
            }
        }
        let mut i = self.scope.len();
        loop {
            let n = format!("v{i}");
            if !self.scope.contains(&n) {
                return n;
            }
            i += 1;
        }
    }

    fn binder_name(&mut self) -> String {
        if self.cfg.holes && self.ch.chance(1, 12) {
            return PLACEHOLDER.to_owned();
        }
        self.fresh_name()
    }

    fn usable(&self) -> Vec<String> {
        self.scope.iter().filter(|n| !self.banned.contains(n)).cloned().collect()
    }

    fn leaf(&mut self) -> S {
        let usable = self.usable();
        let k = self.ch.pick(10);
        match k {
            0 | 1 | 2 if !usable.is_empty() => S::Var(usable[usable.len() - 1 - self.ch.pick(usable.len())].clone()),
            3 => S::Lit(literal(self.ch)),
            4 => S::Type,
            5 => S::Int,
            6 => S::Bool,
            7 => S::True,
            8 => S::False,
            9 if self.cfg.holes => S::Var(PLACEHOLDER.to_owned()),
            _ => S::Lit(BigInt::from(self.ch.pick(4))),
        }
    }

    fn maybe_paren(&mut self, s: S) -> S {
        // A parenthesised group directly in the body position of a group is read by the current
        // parser as part of the enclosing group; the property statements do not settle that shape,
        // so it is never generated (see DESIGN.md, C08).
        if self.cfg.paren_16 > 0 && self.ch.chance(self.cfg.paren_16, 16) { S::Paren(Box::new(s)) } else { s }
    }

    pub fn term(&mut self, fuel: usize) -> S {
        self.term_inner(fuel, true)
    }

    /// `allow_group = false`: the result is not a group at its top (used for the body of a group:
    /// a group there would belong to the enclosing group, whose names are already fixed).
    fn term_inner(&mut self, fuel: usize, allow_group: bool) -> S {
        if fuel == 0 {
            return self.leaf();
        }
        let mut k = self.ch.pick(14);
        if !allow_group && (k == 7 || k == 8) {
            k = 5;
        }
        let s = match k {
            0 | 1 => self.leaf(),
            2 | 3 => self.lambda(fuel),
            4 => self.pi(fuel),
            5 | 6 => {
                let f = self.term(fuel - 1);
                let a = self.term(fuel - 1);
                S::App(Box::new(f), Box::new(a))
            }
            7 | 8 => self.group(fuel),
            9 => S::Neg(Box::new(self.term(fuel - 1))),
            10 | 11 => {
                let op = crate::dterm::OPS[self.ch.pick(9)];
                let a = self.term(fuel - 1);
                let b = self.term(fuel - 1);
                S::Bin(op, Box::new(a), Box::new(b))
            }
            12 => {
                let c = self.term(fuel - 1);
                let t = self.term(fuel - 1);
                let e = self.term(fuel - 1);
                S::If(Box::new(c), Box::new(t), Box::new(e))
            }
            _ => {
                let a = self.term(fuel - 1);
                let b = self.term(fuel - 1);
                S::Pi { name: None, implicit: false, dom: Box::new(a), cod: Box::new(b) }
            }
        };
        if !allow_group && matches!(s, S::Let { .. }) {
            return s;
        }
        if matches!(s, S::Let { .. }) && !allow_group {
            s
        } else if allow_group {
            self.maybe_paren(s)
        } else {
            // No parentheses directly around a body either (they could hide a group).
            s
        }
    }

    fn lambda(&mut self, fuel: usize) -> S {
        let implicit = self.ch.chance(1, 4);
        let ann = if self.cfg.omit_annotations && self.ch.chance(1, 3) { None } else { Some(Box::new(self.term(fuel - 1))) };
        let name = self.binder_name();
        let pushed = name != PLACEHOLDER;
        if pushed {
            self.scope.push(name.clone());
        }
        self.binders_made += 1;
        // The names banned for an enclosing non-value definition stay banned inside function
        // bodies too: the definition-order check looks at all free variables of the definition.
        let body = self.term(fuel - 1);
        if pushed {
            self.scope.pop();
        }
        S::Lam { name, implicit, ann, body: Box::new(body) }
    }

    fn pi(&mut self, fuel: usize) -> S {
        let implicit = self.ch.chance(1, 4);
        let dom = self.term(fuel - 1);
        let name = self.binder_name();
        let pushed = name != PLACEHOLDER;
        if pushed {
            self.scope.push(name.clone());
        }
        self.binders_made += 1;
        let cod = self.term(fuel - 1);
        if pushed {
            self.scope.pop();
        }
        S::Pi { name: Some(name), implicit, dom: Box::new(dom), cod: Box::new(cod) }
    }

    fn is_syntactic_value(s: &S) -> bool {
        matches!(s.strip(), S::Type | S::Int | S::Bool | S::True | S::False | S::Lit(_) | S::Lam { .. } | S::Pi { .. })
    }

    fn mentions_any(s: &S, names: &[String]) -> bool {
        match s {
            S::Var(n) => names.contains(n),
            S::Lam { ann, body, .. } => ann.as_ref().is_some_and(|a| Self::mentions_any(a, names)) || Self::mentions_any(body, names),
            S::Pi { dom, cod, .. } => Self::mentions_any(dom, names) || Self::mentions_any(cod, names),
            S::App(a, b) | S::Bin(_, a, b) => Self::mentions_any(a, names) || Self::mentions_any(b, names),
            S::Neg(a) | S::Paren(a) => Self::mentions_any(a, names),
            S::If(a, b, c) => Self::mentions_any(a, names) || Self::mentions_any(b, names) || Self::mentions_any(c, names),
            S::Let { defs, body } => {
                defs.iter().any(|d| d.ann.as_ref().is_some_and(|a| Self::mentions_any(a, names)) || Self::mentions_any(&d.def, names))
                    || Self::mentions_any(body, names)
            }
            _ => false,
        }
    }

    fn group(&mut self, fuel: usize) -> S {
        let n = 1 + self.ch.pick(4);
        let base = self.scope.len();
        let mut names = vec![];
        for _ in 0..n {
            let name = self.binder_name();
            if name != PLACEHOLDER {
                self.scope.push(name.clone());
            }
            self.binders_made += 1;
            names.push(name);
        }
        let group_names: Vec<String> = names.iter().filter(|n| *n != PLACEHOLDER).cloned().collect();
        let mut defs: Vec<Def> = vec![];
        // Names of this group that a *non-value* definition must not mention: later definitions,
        // and earlier value definitions that themselves mention names of the group.
        let mut open_values: Vec<String> = vec![];
        for i in 0..n {
            let ann = if self.cfg.omit_annotations && self.ch.chance(1, 2) {
                None
            } else {
                let saved = self.banned.clone();
                let a = self.term((fuel - 1).min(2));
                self.banned = saved;
                Some(a)
            };
            let saved = self.banned.clone();
            let want_value = self.ch.chance(1, 2);
            let def = if want_value {
                if self.ch.chance(2, 3) { self.lambda(fuel) } else { self.leaf_value() }
            } else {
                if self.cfg.safe_order {
                    for (j, nm) in names.iter().enumerate() {
                        if j >= i {
                            self.banned.push(nm.clone());
                        }
                    }
                    self.banned.extend(open_values.iter().cloned());
                }
                self.term(fuel - 1)
            };
            self.banned = saved;
            if Self::is_syntactic_value(&def) && Self::mentions_any(&def, &group_names) && names[i] != PLACEHOLDER {
                open_values.push(names[i].clone());
            }
            defs.push(Def { name: names[i].clone(), ann, def });
        }
        // A group in body position would be part of this group (whose names are already fixed), and
        // a parenthesised group there is the unsettled shape: neither is generated.
        let body = self.term_inner(fuel - 1, false);
        self.scope.truncate(base);
        S::Let { defs, body: Box::new(body) }
    }

    fn leaf_value(&mut self) -> S {
        match self.ch.pick(5) {
            0 => S::Lit(literal(self.ch)),
            1 => S::Type,
            2 => S::Int,
            3 => S::True,
            _ => S::Bool,
        }
    }
}

impl S {
    /// Merge an immediately nested (un-parenthesised) body group into this group.
    pub fn flatten_top(self) -> S {
        match self {
            S::Let { mut defs, body } => {
                let mut b = *body;
                while let S::Let { defs: inner, body: ib } = b {
                    defs.extend(inner);
                    b = *ib;
                }
                S::Let { defs, body: Box::new(b) }
            }
            other => other,
        }
    }
}

/// One scope-breaking or scope-preserving perturbation of a well-scoped tree.
#[derive(Clone, Debug, PartialEq, Eq)]
pub enum Perturb {
    /// The k-th variable occurrence renamed to a name bound nowhere.
    Unbind { fresh: String },
    /// The k-th binder renamed to a name that is in scope at that point.
    Shadow { name: String },
}

/// Rename the `k`-th (pre-order) non-hole variable occurrence to `fresh`. Returns false if there
/// are fewer occurrences.
pub fn rename_occurrence(s: &mut S, k: &mut usize, fresh: &str) -> bool {
    match s {
        S::Var(n) if n != PLACEHOLDER => {
            if *k == 0 {
                *n = fresh.to_owned();
                return true;
            }
            *k -= 1;
            false
        }
        S::Lam { ann, body, .. } => ann.as_mut().is_some_and(|a| rename_occurrence(a, k, fresh)) || rename_occurrence(body, k, fresh),
        S::Pi { dom, cod, .. } => rename_occurrence(dom, k, fresh) || rename_occurrence(cod, k, fresh),
        S::App(a, b) | S::Bin(_, a, b) => rename_occurrence(a, k, fresh) || rename_occurrence(b, k, fresh),
        S::Neg(a) | S::Paren(a) => rename_occurrence(a, k, fresh),
        S::If(a, b, c) => rename_occurrence(a, k, fresh) || rename_occurrence(b, k, fresh) || rename_occurrence(c, k, fresh),
        S::Let { defs, body } => {
            for d in defs.iter_mut() {
                if d.ann.as_mut().is_some_and(|a| rename_occurrence(a, k, fresh)) || rename_occurrence(&mut d.def, k, fresh) {
                    return true;
                }
            }
            rename_occurrence(body, k, fresh)
        }
        _ => false,
    }
}

pub fn count_occurrences(s: &S) -> usize {
    match s {
        S::Var(n) if n != PLACEHOLDER => 1,
        S::Lam { ann, body, .. } => ann.as_ref().map_or(0, |a| count_occurrences(a)) + count_occurrences(body),
        S::Pi { dom, cod, .. } => count_occurrences(dom) + count_occurrences(cod),
        S::App(a, b) | S::Bin(_, a, b) => count_occurrences(a) + count_occurrences(b),
        S::Neg(a) | S::Paren(a) => count_occurrences(a),
        S::If(a, b, c) => count_occurrences(a) + count_occurrences(b) + count_occurrences(c),
        S::Let { defs, body } => {
            defs.iter().map(|d| d.ann.as_ref().map_or(0, count_occurrences) + count_occurrences(&d.def)).sum::<usize>() + count_occurrences(body)
        }
        _ => 0,
    }
}

/// Binder sites in pre-order: (names in scope at the binder [for a group: names of enclosing
/// scopes plus the *other* definitions of the group], current name).
pub fn binder_sites(s: &S, scope: &mut Vec<String>, out: &mut Vec<(Vec<String>, String)>) {
    match s {
        S::Lam { name, ann, body, .. } => {
            if let Some(a) = ann {
                binder_sites(a, scope, out);
            }
            if name != PLACEHOLDER {
                out.push((scope.clone(), name.clone()));
                scope.push(name.clone());
                binder_sites(body, scope, out);
                scope.pop();
            } else {
                binder_sites(body, scope, out);
            }
        }
        S::Pi { name, dom, cod, .. } => {
            binder_sites(dom, scope, out);
            match name {
                Some(n) if n != PLACEHOLDER => {
                    out.push((scope.clone(), n.clone()));
                    scope.push(n.clone());
                    binder_sites(cod, scope, out);
                    scope.pop();
                }
                _ => binder_sites(cod, scope, out),
            }
        }
        S::App(a, b) | S::Bin(_, a, b) => {
            binder_sites(a, scope, out);
            binder_sites(b, scope, out);
        }
        S::Neg(a) | S::Paren(a) => binder_sites(a, scope, out),
        S::If(a, b, c) => {
            binder_sites(a, scope, out);
            binder_sites(b, scope, out);
            binder_sites(c, scope, out);
        }
        S::Let { defs, body } => {
            let base = scope.len();
            let names: Vec<String> = defs.iter().map(|d| d.name.clone()).filter(|n| n != PLACEHOLDER).collect();
            for d in defs {
                if d.name != PLACEHOLDER {
                    let mut visible = scope[..base].to_vec();
                    visible.extend(names.iter().filter(|n| **n != d.name).cloned());
                    out.push((visible, d.name.clone()));
                }
            }
            scope.extend(names);
            for d in defs {
                if let Some(a) = &d.ann {
                    binder_sites(a, scope, out);
                }
                binder_sites(&d.def, scope, out);
            }
            binder_sites(body, scope, out);
            scope.truncate(base);
        }
        _ => {}
    }
}

/// Rename the `k`-th binder site (same order as `binder_sites`) to `new`, *without* renaming its
/// uses (they become unbound or captured — the caller only looks at the "already exists" error).
pub fn rename_binder(s: &mut S, k: &mut usize, new: &str) -> bool {
    match s {
        S::Lam { name, ann, body, .. } => {
            if ann.as_mut().is_some_and(|a| rename_binder(a, k, new)) {
                return true;
            }
            if name != PLACEHOLDER {
                if *k == 0 {
                    *name = new.to_owned();
                    return true;
                }
                *k -= 1;
            }
            rename_binder(body, k, new)
        }
        S::Pi { name, dom, cod, .. } => {
            if rename_binder(dom, k, new) {
                return true;
            }
            if let Some(n) = name {
                if n != PLACEHOLDER {
                    if *k == 0 {
                        *n = new.to_owned();
                        return true;
                    }
                    *k -= 1;
                }
            }
            rename_binder(cod, k, new)
        }
        S::App(a, b) | S::Bin(_, a, b) => rename_binder(a, k, new) || rename_binder(b, k, new),
        S::Neg(a) | S::Paren(a) => rename_binder(a, k, new),
        S::If(a, b, c) => rename_binder(a, k, new) || rename_binder(b, k, new) || rename_binder(c, k, new),
        S::Let { defs, body } => {
            for d in defs.iter_mut() {
                if d.name != PLACEHOLDER {
                    if *k == 0 {
                        d.name = new.to_owned();
                        return true;
                    }
                    *k -= 1;
                }
            }
            for d in defs.iter_mut() {
                if d.ann.as_mut().is_some_and(|a| rename_binder(a, k, new)) || rename_binder(&mut d.def, k, new) {
                    return true;
                }
            }
            rename_binder(body, k, new)
        }
        _ => false,
    }
}
