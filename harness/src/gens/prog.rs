//! G-prog: type-directed generator of well-typed programs. Goal types are NbE values; every
//! program is built by choosing an introduction form for the goal or an elimination of something
//! in scope whose (instantiated) result type is convertible with the goal. The generator's claim
//! of well-typedness is never trusted by a check: R-core re-checks the program.

use crate::refs::core::{self, Env, Id, K, Names, Nbe, V, bind, frame};
use crate::sast::{self, Def, Op, PLACEHOLDER, S};
use crate::util::Ch;
use num_bigint::BigInt;
use std::collections::BTreeSet;
use std::rc::Rc;

#[derive(Clone)]
pub struct Entry {
    pub id: Id,
    pub name: String,
    pub ty: Rc<V>,
    pub is_def: bool,
}

#[derive(Clone, Debug)]
pub struct ProgCfg {
    /// Allow recursive / mutually recursive definition templates.
    pub recursion: bool,
    /// Allow forward type aliases (`y : t = 4; t = u; u = int`): typeable, but the evaluator gets
    /// stuck on them (recorded finding), so evaluating checks switch this off.
    pub forward_aliases: bool,
    /// Allow implicit binders (never applied).
    pub implicit: bool,
    /// Probability (1/16) of writing an annotation type in an obfuscated, convertible form.
    pub obfuscate_16: u32,
    /// Allow divisions whose divisor is an arbitrary expression (may be zero).
    pub risky_division: bool,
    pub max_recursion_arg: usize,
    /// Prefer binders (lambdas for function goals, groups otherwise) near the top of the program,
    /// so that the program starts with several parameter / definition blocks (used by C18).
    pub block_bias: bool,
}

impl Default for ProgCfg {
    fn default() -> Self {
        ProgCfg { recursion: true, forward_aliases: false, implicit: true, obfuscate_16: 2, risky_division: true, max_recursion_arg: 12, block_bias: false }
    }
}

pub struct ProgGen<'c, 'd> {
    pub ch: &'c mut Ch<'d>,
    pub cfg: ProgCfg,
    pub names: Names,
    pub nbe: Nbe,
    pub scope: Vec<Entry>,
    pub env: Env,
    pub features: BTreeSet<&'static str>,
    counter: usize,
    used: BTreeSet<String>,
    elim_depth: usize,
    /// Set just before `annotation` is called for a definition that should use an alias.
    prefer_alias: bool,
    pub top_fuel: usize,
}

const POOL: [&str; 16] = ["x", "y", "f", "g", "a", "b", "n", "m", "p", "q", "é", "λx", "名", "iff", "int2", "t_"];

pub fn boundary_literal(ch: &mut Ch) -> BigInt {
    let two = |e: u32| BigInt::from(2u8).pow(e);
    match ch.pick(12) {
        0 => BigInt::from(0),
        1 => BigInt::from(1),
        2 => BigInt::from(2),
        3 => BigInt::from(ch.pick(10)),
        4 => BigInt::from(ch.pick(100)),
        5 => two(31) - 1 + ch.pick(3),
        6 => two(63) - 1 + ch.pick(3),
        7 => two(64) - 1 + ch.pick(3),
        8 => BigInt::from(10u8).pow(40) + ch.pick(7),
        9 => BigInt::from(7),
        10 => BigInt::from(ch.pick(1000)),
        _ => BigInt::from(3),
    }
}

impl<'c, 'd> ProgGen<'c, 'd> {
    pub fn new(ch: &'c mut Ch<'d>, cfg: ProgCfg) -> Self {
        ProgGen { ch, cfg, names: Names::default(), nbe: Nbe::new(200_000), scope: vec![], env: None, features: BTreeSet::new(), counter: 0, used: BTreeSet::new(), elim_depth: 0, prefer_alias: false, top_fuel: 0 }
    }

    /// A binder name that is used nowhere else in this program (so that flattening nested groups
    /// and copying annotations can never create a re-binding).
    fn fresh_name(&mut self) -> String {
        let start = self.ch.pick(POOL.len());
        for k in 0..POOL.len() {
            let n = POOL[(start + k) % POOL.len()];
            if self.used.insert(n.to_owned()) {
                return n.to_owned();
            }
        }
        loop {
            self.counter += 1;
            let n = format!("{}{}", ["v", "é", "w_"][self.counter % 3], self.counter);
            if self.used.insert(n.clone()) {
                return n;
            }
        }
    }

    fn scope_pairs(&self) -> Vec<(String, Id)> {
        self.scope.iter().map(|e| (e.name.clone(), e.id)).collect()
    }

    pub fn to_k(&mut self, s: &S) -> Option<K> {
        let mut sc = self.scope_pairs();
        core::from_s(s, &mut sc, &mut self.names).ok()
    }

    pub fn eval_s(&mut self, s: &S) -> Option<Rc<V>> {
        let k = self.to_k(s)?;
        let env = self.env.clone();
        self.nbe.eval(&k, &env).ok()
    }

    /// The goal type written as a surface term (names of the current scope).
    pub fn quote_s(&mut self, v: &Rc<V>) -> Option<S> {
        let k = self.nbe.quote(v, &mut self.names).ok()?;
        let mut sc: Vec<(Id, String)> = self.scope.iter().map(|e| (e.id, e.name.clone())).collect();
        Some(core::to_s(&k, &self.names, &mut sc))
    }

    fn conv(&mut self, a: &Rc<V>, b: &Rc<V>) -> bool {
        self.nbe.conv(a, b).unwrap_or(false)
    }

    fn push_param(&mut self, name: &str, ty: Rc<V>) -> Id {
        let id = self.names.fresh(name);
        self.scope.push(Entry { id, name: name.to_owned(), ty, is_def: false });
        id
    }

    /// An annotation for type `ty`, sometimes written in a convertible but non-normal form.
    fn annotation(&mut self, ty: &Rc<V>) -> Option<S> {
        // Use a type alias that is in scope (a definition of type `type` whose value is this type)
        // now and then, so that types mention variables of definition groups.
        let prefer = std::mem::take(&mut self.prefer_alias);
        if prefer || self.ch.chance(1, 3) {
            let aliases: Vec<Entry> = self.scope.iter().filter(|e| e.is_def && matches!(&*e.ty, V::Type)).cloned().collect();
            for e in aliases.iter().rev().take(4) {
                let env = self.env.clone();
                if let Ok(v) = self.nbe.eval(&K::Var(e.id), &env) {
                    if !matches!(&*v, V::Var(i) if *i == e.id) && self.conv(&v, ty) {
                        self.features.insert("annotation written with a type alias of a group");
                        return Some(sast::var(&e.name));
                    }
                }
            }
        }
        let plain = self.quote_s(ty)?;
        if self.cfg.obfuscate_16 > 0 && self.ch.chance(self.cfg.obfuscate_16, 16) {
            self.features.insert("type-level computation in an annotation");
            let fresh = self.fresh_name();
            // The innermost parameter of a base type, for the "vanishing dependency" form below.
            let local: Option<(String, S)> = self.scope.iter().rev().filter(|e| !e.is_def).find_map(|e| match &*e.ty {
                V::Int => Some((e.name.clone(), S::Int)),
                V::Bool => Some((e.name.clone(), S::Bool)),
                V::Type => Some((e.name.clone(), S::Type)),
                _ => None,
            });
            let form = self.ch.pick(11);
            if let (8..=10, Some((v, vt))) = (form, &local) {
                // A constant type-level function applied to the type and to a parameter in scope:
                // the written type mentions a local variable that disappears under normalisation
                // (so it may be used where that variable is not in scope, but only once normalised).
                let fresh2 = self.fresh_name();
                self.features.insert("annotation that mentions a local variable which disappears under normalisation");
                return Some(sast::app(sast::app(sast::lam(&fresh, Some(S::Type), sast::lam(&fresh2, Some(vt.clone()), sast::var(&fresh))), plain), sast::var(v)));
            }
            return Some(match form % 8 {
                // A group with an unused definition whose *body* is the type (so the body of a
                // group inside a type mentions whatever the type mentions).
                7 => sast::let_(vec![(&fresh, Some(S::Type), S::Int)], plain),
                4..=6 => {
                    // A type-level conditional on a comparison of literals: every operator, equal
                    // and unequal operands, the wanted type in whichever branch is taken.
                    let (a, b) = (self.ch.pick(4) as i64, self.ch.pick(4) as i64);
                    let (a, b) = if self.ch.chance(1, 3) { (a, a) } else { (a, b) };
                    let op = [Op::Lt, Op::Le, Op::Eq, Op::Gt, Op::Ge][self.ch.pick(5)];
                    let truth = match op {
                        Op::Lt => a < b,
                        Op::Le => a <= b,
                        Op::Eq => a == b,
                        Op::Gt => a > b,
                        _ => a >= b,
                    };
                    let other = if matches!(plain, S::Bool) { S::Int } else { S::Bool };
                    let cond = sast::bin(op, sast::lit(a), sast::lit(b));
                    if truth { sast::ite(cond, plain, other) } else { sast::ite(cond, other, plain) }
                }
                0 => sast::ite(S::True, plain, S::Bool),
                1 => sast::app(sast::lam(&fresh, Some(S::Type), sast::var(&fresh)), plain),
                2 => sast::let_(vec![(&fresh, Some(S::Type), plain)], sast::var(&fresh)),
                _ => sast::ite(sast::bin(Op::Lt, sast::lit(2), sast::lit(1)), S::Int, plain),
            });
        }
        Some(plain)
    }

    pub fn make(&mut self, goal: &Rc<V>, fuel: usize) -> Option<S> {
        if self.cfg.block_bias && fuel >= 3 && fuel + 3 > self.top_fuel {
            match (&**goal, self.ch.pick(8)) {
                (V::Pi(im, dom, _), 0..=4) => {
                    let (im, dom) = (*im, dom.clone());
                    return self.gen_lambda(goal, im, &dom, fuel);
                }
                (_, 0..=5) => return self.gen_let(goal, fuel),
                _ => {}
            }
        }
        // Under type variables there is little else to generate: name the goal type there.
        if matches!(&**goal, V::Var(_) | V::App(..)) && self.ch.chance(1, 2) {
            if let Some(s) = self.alias_group(goal, fuel) {
                return Some(s);
            }
        }
        // Generic wrappers, applicable to every goal.
        if fuel >= 2 {
            match self.ch.pick(14) {
                0 => {
                    let c = self.gen_bool(fuel - 1)?;
                    let t = self.make(goal, fuel - 1)?;
                    let e = self.make(goal, fuel - 1)?;
                    self.features.insert("conditional");
                    return Some(sast::ite(c, t, e));
                }
                1 | 2 => return self.gen_let(goal, fuel),
                3 => {
                    // Immediately applied annotated lambda (the goal does not mention the parameter).
                    let aty = self.small_type(fuel - 1)?;
                    let arg = self.make(&aty, fuel - 1)?;
                    let ann = self.annotation(&aty)?;
                    let name = self.fresh_name();
                    self.push_param(&name, aty);
                    let body = self.make(goal, fuel - 1);
                    self.scope.pop();
                    self.features.insert("immediately applied lambda");
                    return Some(sast::app(sast::lam(&name, Some(ann), body?), arg));
                }
                6 if !matches!(&**goal, V::Type) => {
                    if let Some(s) = self.alias_group(goal, fuel - 1) {
                        return Some(s);
                    }
                }
                4 | 5 => {
                    if let Some(s) = self.gen_elim(goal, fuel - 1) {
                        return Some(s);
                    }
                }
                _ => {}
            }
        }
        match &**goal {
            V::Int => self.gen_int(fuel),
            V::Bool => self.gen_bool(fuel),
            V::Type => self.gen_type(fuel),
            V::Pi(im, dom, _) => {
                let (im, dom) = (*im, dom.clone());
                self.gen_lambda(goal, im, &dom, fuel)
            }
            _ => self.gen_elim(goal, fuel),
        }
    }

    fn gen_int(&mut self, fuel: usize) -> Option<S> {
        let int = Rc::new(V::Int);
        if fuel == 0 || self.ch.chance(1, 4) {
            if self.ch.chance(1, 2) {
                if let Some(s) = self.var_of(&int) {
                    return Some(s);
                }
            }
            return Some(S::Lit(boundary_literal(self.ch)));
        }
        match self.ch.pick(8) {
            0 => Some(S::Neg(Box::new(self.gen_int(fuel - 1)?))),
            1 => {
                // Division: a non-zero literal divisor unless risky divisions are allowed.
                let a = self.gen_int(fuel - 1)?;
                let b = if self.cfg.risky_division && self.ch.chance(1, 8) {
                    self.features.insert("division with a computed divisor");
                    self.gen_int(fuel - 1)?
                } else {
                    let mut d = boundary_literal(self.ch);
                    if d == BigInt::from(0) {
                        d = BigInt::from(3);
                    }
                    if self.ch.chance(1, 3) { S::Neg(Box::new(S::Lit(d))) } else { S::Lit(d) }
                };
                Some(sast::bin(Op::Div, a, b))
            }
            2 | 3 | 4 => {
                let op = [Op::Add, Op::Sub, Op::Mul][self.ch.pick(3)];
                let a = self.gen_int(fuel - 1)?;
                let b = self.gen_int(fuel - 1)?;
                Some(sast::bin(op, a, b))
            }
            5 => self.gen_elim(&int, fuel - 1).or_else(|| Some(S::Lit(boundary_literal(self.ch)))),
            _ => {
                let c = self.gen_bool(fuel - 1)?;
                let t = self.gen_int(fuel - 1)?;
                let e = self.gen_int(fuel - 1)?;
                Some(sast::ite(c, t, e))
            }
        }
    }

    fn gen_bool(&mut self, fuel: usize) -> Option<S> {
        let bool_t = Rc::new(V::Bool);
        if fuel == 0 || self.ch.chance(1, 4) {
            if self.ch.chance(1, 3) {
                if let Some(s) = self.var_of(&bool_t) {
                    return Some(s);
                }
            }
            return Some(if self.ch.chance(1, 2) { S::True } else { S::False });
        }
        match self.ch.pick(6) {
            0..=3 => {
                let op = [Op::Lt, Op::Le, Op::Eq, Op::Gt, Op::Ge][self.ch.pick(5)];
                let a = self.gen_int(fuel - 1)?;
                // Equal / adjacent operands now and then.
                let b = if self.ch.chance(1, 4) {
                    match self.ch.pick(3) {
                        0 => a.clone(),
                        1 => sast::bin(Op::Add, a.clone(), sast::lit(1)),
                        _ => sast::bin(Op::Sub, a.clone(), sast::lit(1)),
                    }
                } else {
                    self.gen_int(fuel - 1)?
                };
                Some(sast::bin(op, a, b))
            }
            4 => self.gen_elim(&bool_t, fuel - 1).or(Some(S::True)),
            _ => {
                let c = self.gen_bool(fuel - 1)?;
                let t = self.gen_bool(fuel - 1)?;
                let e = self.gen_bool(fuel - 1)?;
                Some(sast::ite(c, t, e))
            }
        }
    }

    /// A type (a term of type `type`).
    fn gen_type(&mut self, fuel: usize) -> Option<S> {
        let ty = Rc::new(V::Type);
        if fuel == 0 || self.ch.chance(1, 3) {
            if self.ch.chance(1, 3) {
                if let Some(s) = self.var_of(&ty) {
                    return Some(s);
                }
            }
            return Some([S::Int, S::Bool, S::Int, S::Type][self.ch.pick(4)].clone());
        }
        match self.ch.pick(7) {
            0 | 1 => {
                let a = self.gen_type(fuel - 1)?;
                let b = self.gen_type(fuel - 1)?;
                Some(sast::arrow(a, b))
            }
            2 | 3 => {
                // Dependent pi: the codomain may mention the parameter.
                let a = if self.ch.chance(1, 2) { S::Type } else { self.gen_type(fuel - 1)? };
                let av = self.eval_s(&a)?;
                let name = self.fresh_name();
                let implicit = self.cfg.implicit && self.ch.chance(1, 8);
                self.push_param(&name, av);
                let b = self.gen_type(fuel - 1);
                self.scope.pop();
                let b = b?;
                self.features.insert("dependent function type");
                Some(S::Pi { name: Some(name), implicit, dom: Box::new(a), cod: Box::new(b) })
            }
            4 => {
                let c = self.gen_bool(fuel - 1)?;
                let t = self.gen_type(fuel - 1)?;
                let e = self.gen_type(fuel - 1)?;
                self.features.insert("type-level conditional");
                Some(sast::ite(c, t, e))
            }
            5 => self.gen_elim(&ty, fuel - 1).or(Some(S::Int)),
            _ => Some(S::Int),
        }
    }

    /// A small closed-ish type as a value (for parameters and definitions).
    fn small_type(&mut self, fuel: usize) -> Option<Rc<V>> {
        let s = match self.ch.pick(8) {
            0 | 1 | 2 => S::Int,
            3 => S::Bool,
            4 => sast::arrow(S::Int, S::Int),
            5 => S::Type,
            _ => self.gen_type(fuel.min(2))?,
        };
        self.eval_s(&s)
    }

    fn gen_lambda(&mut self, goal: &Rc<V>, implicit: bool, dom: &Rc<V>, fuel: usize) -> Option<S> {
        let ann = self.annotation(dom)?;
        // "Captured before it is typed": a parameter that a local function mentions under further
        // binders before anything in the body says what its type is. Names beginning with `late`
        // tell `erase` to drop these annotations preferentially, so that the parameter's type is
        // an unsolved hole while the local function's type is inferred.
        // (mostly where the parameter's type mentions an enclosing variable: the interesting case)
        let open_dom = matches!(&**dom, V::Var(_) | V::App(..));
        let late = fuel >= 1 && !implicit && self.ch.chance(if open_dom { 4 } else { 1 }, 8);
        let name = if late { self.late_name("late") } else { self.fresh_name() };
        let id = self.push_param(&name, dom.clone());
        let cod = match &**goal {
            V::Pi(_, _, clo) => self.nbe.apply_clo(clo, Rc::new(V::Var(id))).ok(),
            _ => None,
        };
        let body = match cod {
            Some(c) if late => self.late_body(&name, dom, &c, fuel.saturating_sub(1)),
            Some(c) => self.make(&c, fuel.saturating_sub(1)),
            None => None,
        };
        self.scope.pop();
        self.features.insert("function");
        Some(S::Lam { name, implicit, ann: Some(Box::new(ann)), body: Box::new(body?) })
    }

    fn late_name(&mut self, stem: &str) -> String {
        loop {
            self.counter += 1;
            let n = format!("{stem}{}", self.counter);
            if self.used.insert(n.clone()) {
                return n;
            }
        }
    }

    /// `g : (T1 -> .. -> D) = (b1 : T1) => .. => x; y : D = x; [u : D = g a1 ..;] body` for the
    /// parameter `x : D` just bound: `g` mentions `x` under one to three binders, then `y` fixes
    /// the type of `x`, then `g` is called. With the annotations of `x` and `g` erased, the type
    /// inferred for `g` holds the still unsolved type of `x` under those binders.
    fn late_body(&mut self, x: &str, dom: &Rc<V>, cod: &Rc<V>, fuel: usize) -> Option<S> {
        let d_s = self.quote_s(dom)?;
        let k = 1 + self.ch.pick(3);
        let g = self.late_name("lateg");
        let y = self.fresh_name();
        let mut g_ty = d_s.clone();
        let mut g_def = sast::var(x);
        let mut call_args = vec![];
        for _ in 0..k {
            let b = self.fresh_name();
            let (t, a) = match self.ch.pick(4) {
                0 => (S::Int, S::Lit(boundary_literal(self.ch))),
                1 => (S::Bool, if self.ch.chance(1, 2) { S::True } else { S::False }),
                2 => (S::Type, [S::Int, S::Bool, sast::arrow(S::Int, S::Bool)][self.ch.pick(3)].clone()),
                _ => (S::Type, S::Bool),
            };
            g_ty = if self.ch.chance(1, 2) { sast::pi(&b, t.clone(), g_ty) } else { sast::arrow(t.clone(), g_ty) };
            g_def = sast::lam(&b, Some(t), g_def);
            call_args.push(a);
        }
        // The binders were wrapped innermost first: the first argument belongs to the last one.
        call_args.reverse();
        let mut call = sast::var(&g);
        for a in call_args {
            call = sast::app(call, a);
        }
        let mut defs = vec![Def { name: g, ann: Some(g_ty), def: g_def }, Def { name: y, ann: Some(d_s.clone()), def: sast::var(x) }];
        let body = if self.conv(cod, dom) && self.ch.chance(2, 3) {
            call
        } else {
            let u = self.fresh_name();
            defs.push(Def { name: u, ann: Some(d_s), def: call });
            self.make(cod, fuel)?
        };
        self.features.insert("parameter captured by a local function before its type is fixed");
        Some(S::Let { defs, body: Box::new(body) })
    }

    fn var_of(&mut self, goal: &Rc<V>) -> Option<S> {
        if self.scope.is_empty() {
            return None;
        }
        let start = self.ch.pick(self.scope.len());
        for k in 0..self.scope.len().min(8) {
            let e = self.scope[(start + k) % self.scope.len()].clone();
            if self.conv(&e.ty, goal) {
                return Some(sast::var(&e.name));
            }
        }
        None
    }

    /// Something in scope applied to generated arguments so that the result has the goal type.
    fn gen_elim(&mut self, goal: &Rc<V>, fuel: usize) -> Option<S> {
        if self.scope.is_empty() || self.elim_depth >= 3 {
            return None;
        }
        self.elim_depth += 1;
        let r = self.gen_elim_inner(goal, fuel);
        self.elim_depth -= 1;
        r
    }

    fn gen_elim_inner(&mut self, goal: &Rc<V>, fuel: usize) -> Option<S> {
        let start = self.ch.pick(self.scope.len());
        for k in 0..self.scope.len().min(6) {
            let e = self.scope[(start + k) % self.scope.len()].clone();
            let mut head = sast::var(&e.name);
            let mut ty = e.ty.clone();
            for nargs in 0..4 {
                if self.conv(&ty, goal) {
                    if nargs > 0 {
                        self.features.insert("call of something in scope");
                    }
                    return Some(head);
                }
                let (dom, next) = match &*ty {
                    V::Pi(false, dom, clo) => {
                        // Guess a type argument from the goal; otherwise generate one.
                        let arg = if matches!(&**dom, V::Type) && self.ch.chance(3, 4) {
                            self.features.insert("type argument");
                            self.quote_s(goal)
                        } else if fuel == 0 {
                            self.make(dom, 0)
                        } else {
                            self.make(dom, fuel - 1)
                        };
                        let Some(arg) = arg else { break };
                        let Some(av) = self.eval_s(&arg) else { break };
                        let Ok(next) = self.nbe.apply_clo(clo, av) else { break };
                        (arg, next)
                    }
                    _ => break,
                };
                if matches!(&*e.ty, V::Pi(_, d, _) if matches!(&**d, V::Pi(..))) {
                    self.features.insert("higher-order call");
                }
                head = sast::app(head, dom);
                ty = next;
            }
        }
        None
    }

    // -----------------------------------------------------------------------------------------
    // Definition groups
    // -----------------------------------------------------------------------------------------

    fn gen_let(&mut self, goal: &Rc<V>, fuel: usize) -> Option<S> {
        let n = 1 + self.ch.pick(4);
        let base = self.scope.len();
        let outer_env = self.env.clone();
        let mut defs: Vec<Def> = vec![];
        let mut kdefs: Vec<(Id, K, K)> = vec![];
        let mut ok = true;
        // The value of a type alias created in this group that no later definition has used yet.
        let mut pending_alias: Option<Rc<V>> = None;
        for _ in 0..n {
            let mut kind = self.ch.pick(15);
            if pending_alias.is_some() && self.ch.chance(2, 3) {
                kind = 100;
            }
            let made: Option<Vec<(String, S, S)>> = match kind {
                100 => {
                    // A definition whose annotation is written with the alias just made.
                    let ty = pending_alias.take().unwrap();
                    self.prefer_alias = true;
                    let d = self.def_of_type(ty, fuel - 1).map(|d| vec![d]);
                    self.prefer_alias = false;
                    d
                }
                0 | 1 => self.def_of_type(Rc::new(V::Int), fuel - 1).map(|d| vec![d]),
                2 => self.def_of_type(Rc::new(V::Bool), fuel - 1).map(|d| vec![d]),
                3 | 4 => {
                    let t = self.function_type(fuel - 1);
                    t.and_then(|t| self.def_of_type(t, fuel - 1)).map(|d| vec![d])
                }
                5 | 12 => {
                    // A type alias; mostly of a type that later definitions are likely to have.
                    let which = self.ch.pick(6);
                    if which < 3 {
                        let t = [S::Int, S::Bool, sast::arrow(S::Int, S::Int), S::Int][self.ch.pick(4)].clone();
                        let name = self.fresh_name();
                        Some(vec![(name, S::Type, t)])
                    } else if which < 5 {
                        // An alias of the goal type or of the type of an enclosing parameter, so
                        // that the alias (and a type written with it) mentions outer variables.
                        let params: Vec<Rc<V>> = self.scope.iter().filter(|e| !e.is_def).map(|e| e.ty.clone()).collect();
                        let ty = if params.is_empty() || self.ch.chance(1, 2) { goal.clone() } else { params[self.ch.pick(params.len())].clone() };
                        let name = self.fresh_name();
                        self.features.insert("type alias of the goal type or of a parameter type");
                        self.quote_s(&ty).map(|t| vec![(name, S::Type, t)])
                    } else {
                        self.def_of_type(Rc::new(V::Type), fuel - 1).map(|d| vec![d])
                    }
                }
                6 | 7 if self.cfg.recursion => self.recursive_def(fuel - 1).map(|d| vec![d]),
                8 if self.cfg.recursion => {
                    if self.ch.chance(1, 2) { self.mutual_defs() } else { self.recursive_with_later_helper() }
                }
                9 => self.polymorphic_def(fuel - 1).map(|d| vec![d]),
                14 if self.cfg.recursion => self.recursive_type_function(goal, fuel - 1),
                10 if self.cfg.forward_aliases => self.forward_alias_defs(),
                // A definition of the goal type: a candidate for the body of the group, whose
                // type is then written with whatever alias the annotation picked.
                11 | 13 if !matches!(&**goal, V::Type) => self.def_of_type(goal.clone(), fuel - 1).map(|d| vec![d]),
                _ => self.def_of_type(Rc::new(V::Int), fuel - 1).map(|d| vec![d]),
            };
            // A definition that could not be generated is simply left out.
            let Some(made) = made else { continue };
            // Register the new definitions: ids, K forms, frame, scope entries.
            // All definitions of one batch are added together (mutual recursion).
            let ids: Vec<Id> = made.iter().map(|(name, _, _)| self.names.fresh(name)).collect();
            let mut pairs = self.scope_pairs();
            for ((name, _, _), id) in made.iter().zip(&ids) {
                pairs.push((name.clone(), *id));
            }
            let mut batch_k = vec![];
            for ((_, ann, def), id) in made.iter().zip(&ids) {
                let ak = core::from_s(ann, &mut pairs.clone(), &mut self.names).ok();
                let dk = core::from_s(def, &mut pairs.clone(), &mut self.names).ok();
                match (ak, dk) {
                    (Some(a), Some(d)) => batch_k.push((*id, a, d)),
                    _ => {
                        ok = false;
                    }
                }
            }
            if !ok {
                break;
            }
            kdefs.extend(batch_k);
            self.env = frame(&outer_env, &Rc::new(kdefs.clone()));
            for ((name, ann, def), id) in made.into_iter().zip(ids) {
                let Some(k) = kdefs.iter().find(|(i, _, _)| *i == id).map(|(_, a, _)| a.clone()) else { continue };
                let env = self.env.clone();
                let Ok(tv) = self.nbe.eval(&k, &env) else {
                    ok = false;
                    break;
                };
                if matches!(kind, 5 | 12) && matches!(&*tv, V::Type) {
                    let env = self.env.clone();
                    pending_alias = self.nbe.eval(&K::Var(id), &env).ok().filter(|v| !matches!(&**v, V::Var(i) if *i == id));
                }
                self.scope.push(Entry { id, name: name.clone(), ty: tv, is_def: true });
                defs.push(Def { name, ann: Some(ann), def });
            }
            if !ok {
                break;
            }
        }
        let mut body = None;
        if ok && self.scope.len() > base && self.ch.chance(1, 3) {
            // A definition of the group itself as the body, so that the type of the group is the
            // annotation of that definition (which may be written with an alias of the group).
            let cands: Vec<Entry> = self.scope[base..].to_vec();
            let start = self.ch.pick(cands.len());
            for k in 0..cands.len() {
                let e = &cands[(start + k) % cands.len()];
                if self.conv(&e.ty, goal) {
                    self.features.insert("body of a group is one of its definitions");
                    body = Some(sast::var(&e.name));
                    break;
                }
            }
        }
        if body.is_none() && ok {
            body = self.make(goal, fuel - 1);
        }
        self.scope.truncate(base);
        self.env = outer_env;
        let body = body?;
        if defs.len() >= 2 {
            self.features.insert("group of >= 2 definitions");
        }
        if matches!(body, S::Let { .. }) {
            self.features.insert("nested group");
        }
        Some(S::Let { defs, body: Box::new(body) })
    }

    /// `[u : int = 5;] t : type = <goal type>; [u ..;] y : t = <term of the goal type>; [u ..;] y`:
    /// a group whose type is written with an alias that mentions whatever the goal type mentions.
    fn alias_group(&mut self, goal: &Rc<V>, fuel: usize) -> Option<S> {
        let ty = self.quote_s(goal)?;
        let inner = self.make(goal, fuel.saturating_sub(1))?;
        let (t, y, u) = (self.fresh_name(), self.fresh_name(), self.fresh_name());
        let mut defs = vec![
            Def { name: t.clone(), ann: Some(S::Type), def: ty },
            Def { name: y.clone(), ann: Some(sast::var(&t)), def: inner },
        ];
        let at = self.ch.pick(6);
        if at <= 2 {
            let def = if self.ch.chance(1, 2) { sast::lit(5) } else { sast::bin(Op::Mul, sast::lit(2), sast::lit(3)) };
            defs.insert(at, Def { name: u, ann: Some(S::Int), def });
        }
        self.features.insert("group whose type is written with an alias of the goal type");
        Some(S::Let { defs, body: Box::new(sast::var(&y)) })
    }

    fn function_type(&mut self, fuel: usize) -> Option<Rc<V>> {
        let a = self.small_type(fuel)?;
        let b = self.small_type(fuel)?;
        let (sa, sb) = (self.quote_s(&a)?, self.quote_s(&b)?);
        self.eval_s(&sast::arrow(sa, sb))
    }

    fn def_of_type(&mut self, ty: Rc<V>, fuel: usize) -> Option<(String, S, S)> {
        let ann = self.annotation(&ty)?;
        let def = self.make(&ty, fuel)?;
        let name = self.fresh_name();
        if contains_group(&def) {
            self.features.insert("group nested in a definition");
        }
        Some((name, ann, def))
    }

    /// `f : int -> T = (n : int) => if n <= 0 then base else step (f (n - 1))`.
    fn recursive_def(&mut self, fuel: usize) -> Option<(String, S, S)> {
        let ret_bool = self.ch.chance(1, 3);
        let ret = if ret_bool { S::Bool } else { S::Int };
        let f = self.fresh_name();
        let fty = self.eval_s(&sast::arrow(S::Int, ret.clone()))?;
        // `f` is in scope (opaque) while its own body is generated.
        let fid = self.names.fresh(&f);
        self.scope.push(Entry { id: fid, name: f.clone(), ty: fty, is_def: true });
        let n = self.fresh_name();
        self.push_param(&n, Rc::new(V::Int));
        let base = if ret_bool { self.gen_bool(fuel.min(1)) } else { self.gen_int(fuel.min(1)) };
        let rec = sast::app(sast::var(&f), S::Paren(Box::new(sast::bin(Op::Sub, sast::var(&n), sast::lit(1)))));
        let step = if ret_bool {
            match self.ch.pick(3) {
                0 => rec,
                1 => sast::ite(rec, S::False, S::True),
                _ => sast::ite(sast::bin(Op::Eq, sast::var(&n), sast::lit(3)), S::True, rec),
            }
        } else {
            match self.ch.pick(4) {
                0 => sast::bin(Op::Add, sast::var(&n), rec),
                1 => sast::bin(Op::Mul, sast::var(&n), rec),
                2 => sast::bin(Op::Add, rec.clone(), sast::lit(1)),
                _ => sast::bin(Op::Sub, rec, sast::var(&n)),
            }
        };
        self.scope.pop();
        self.scope.pop();
        let body = sast::ite(sast::bin(Op::Le, sast::var(&n), sast::lit(0)), base?, step);
        self.features.insert("recursive definition");
        Some((f, sast::arrow(S::Int, ret), sast::lam(&n, Some(S::Int), body)))
    }

    /// A recursive *type-level* function followed by a definition whose annotation calls it:
    /// `f : (int -> type) = (n : int) => if n <= 0 then T else f (n - 1); x : f 2 = <a T>`.
    /// (`f` is not the last definition of its group, and the type of `x` needs `f` unfolded
    /// through its recursion.)
    fn recursive_type_function(&mut self, goal: &Rc<V>, fuel: usize) -> Option<Vec<(String, S, S)>> {
        let t = if matches!(&**goal, V::Int | V::Bool) && self.ch.chance(2, 3) { goal.clone() } else { Rc::new(if self.ch.chance(1, 2) { V::Int } else { V::Bool }) };
        let ts = self.quote_s(&t)?;
        let other = if matches!(&*t, V::Int) { S::Bool } else { S::Int };
        let inner = self.make(&t, fuel.min(2))?;
        let (f, n, x) = (self.fresh_name(), self.fresh_name(), self.fresh_name());
        let k = self.ch.pick(4) as i64;
        let rec = sast::app(sast::var(&f), S::Paren(Box::new(sast::bin(Op::Sub, sast::var(&n), sast::lit(1)))));
        // The recursion is bounded for every argument (also for the ones a perturbation may put
        // there): above a limit the other type, at or below zero T, in between one step down.
        let limit = sast::bin(Op::Gt, sast::var(&n), sast::lit(k + 5));
        let base = sast::bin(Op::Le, sast::var(&n), sast::lit(0));
        let body = if self.ch.chance(1, 2) {
            sast::ite(limit, other, sast::ite(base, ts.clone(), rec))
        } else {
            sast::ite(base, ts.clone(), sast::ite(limit, other, rec))
        };
        self.features.insert("recursive type-level function used in an annotation");
        Some(vec![
            (f.clone(), sast::arrow(S::Int, S::Type), sast::lam(&n, Some(S::Int), body)),
            (x, sast::app(sast::var(&f), sast::lit(k)), inner),
        ])
    }

    fn mutual_defs(&mut self) -> Option<Vec<(String, S, S)>> {
        let ev = self.fresh_name();
        let od = self.fresh_name();
        let n = self.fresh_name();
        let call = |g: &str, n: &str| sast::app(sast::var(g), S::Paren(Box::new(sast::bin(Op::Sub, sast::var(n), sast::lit(1)))));
        let body = |base: S, g: &str, n: &str| sast::lam(n, Some(S::Int), sast::ite(sast::bin(Op::Le, sast::var(n), sast::lit(0)), base, call(g, n)));
        self.features.insert("mutually recursive definitions");
        let ty = sast::arrow(S::Int, S::Bool);
        Some(vec![(ev.clone(), ty.clone(), body(S::True, &od, &n)), (od, ty, body(S::False, &ev, &n))])
    }

    /// A (possibly recursive) function whose body calls helper functions that are defined *after*
    /// it in the same group: `f = (n) => if n <= 0 then b else g (f (n - 1)); g = (x) => h x + 1; h = ..`.
    fn recursive_with_later_helper(&mut self) -> Option<Vec<(String, S, S)>> {
        let f = self.fresh_name();
        let g = self.fresh_name();
        let n = self.fresh_name();
        let x = self.fresh_name();
        let ty = sast::arrow(S::Int, S::Int);
        let k = BigInt::from(1 + self.ch.pick(20));
        let recursive = self.ch.chance(2, 3);
        let call_g = |arg: S| sast::app(sast::var(&g), S::Paren(Box::new(arg)));
        let f_body = if recursive {
            let rec = sast::app(sast::var(&f), S::Paren(Box::new(sast::bin(Op::Sub, sast::var(&n), sast::lit(1)))));
            let step = match self.ch.pick(3) {
                0 => call_g(rec),
                1 => sast::bin(Op::Add, call_g(sast::var(&n)), rec),
                _ => sast::bin(Op::Add, rec, call_g(sast::lit(2))),
            };
            sast::ite(sast::bin(Op::Le, sast::var(&n), sast::lit(0)), sast::lit(self.ch.pick(3) as i64), step)
        } else {
            sast::bin(Op::Mul, call_g(sast::var(&n)), sast::lit(2))
        };
        let mut out = vec![(f.clone(), ty.clone(), sast::lam(&n, Some(S::Int), f_body))];
        // The helper, and sometimes a second helper after it that the first one calls.
        if self.ch.chance(1, 3) {
            let h = self.fresh_name();
            let y = self.fresh_name();
            out.push((g.clone(), ty.clone(), sast::lam(&x, Some(S::Int), sast::bin(Op::Add, sast::app(sast::var(&h), sast::var(&x)), S::Lit(k.clone())))));
            out.push((h, ty, sast::lam(&y, Some(S::Int), sast::bin(Op::Mul, sast::var(&y), sast::lit(2)))));
        } else {
            out.push((g.clone(), ty, sast::lam(&x, Some(S::Int), sast::bin(Op::Add, sast::var(&x), S::Lit(k)))));
        }
        self.features.insert("function calling helpers defined later in its group");
        if recursive {
            self.features.insert("recursive definition");
        }
        Some(out)
    }

    fn polymorphic_def(&mut self, fuel: usize) -> Option<(String, S, S)> {
        // Binder names are fresh, so that polymorphic definitions nest (a polymorphic function
        // called at a type variable of an enclosing one: substitution of *open* arguments).
        let (a, b, x, u) = (self.fresh_name(), self.fresh_name(), self.fresh_name(), self.fresh_name());
        let (a, b, x, u) = (a.as_str(), b.as_str(), x.as_str(), u.as_str());
        let menu: Vec<S> = vec![
            sast::pi(a, S::Type, sast::arrow(sast::var(a), sast::var(a))),
            sast::pi(a, S::Type, sast::pi(b, S::Type, sast::arrow(sast::var(a), sast::arrow(sast::var(b), sast::var(a))))),
            sast::pi(a, S::Type, sast::arrow(sast::arrow(sast::var(a), sast::var(a)), sast::arrow(sast::var(a), sast::var(a)))),
            sast::arrow(S::Bool, S::Type),
            sast::pi(a, S::Type, sast::pi(x, sast::var(a), sast::var(a))),
            sast::pi(b, S::Bool, sast::ite(sast::var(b), S::Type, S::Type)),
            // Binding constructs inside the codomain that mention the parameter: a group whose
            // body is the parameter, a group whose definition is, a nested function type.
            sast::pi(a, S::Type, sast::pi(x, sast::var(a), sast::let_(vec![(u, Some(S::Type), S::Int)], sast::var(a)))),
            sast::pi(a, S::Type, sast::arrow(sast::var(a), sast::let_(vec![(u, Some(S::Type), sast::var(a))], sast::var(u)))),
            sast::pi(a, S::Type, sast::pi(b, S::Type, sast::arrow(sast::var(b), sast::arrow(sast::var(a), sast::let_(vec![(u, Some(S::Type), sast::var(b))], sast::var(a)))))),
        ];
        let tys = menu[self.ch.pick(menu.len())].clone();
        let ty = self.eval_s(&tys)?;
        let def = self.make(&ty, fuel.max(3))?;
        let name = self.fresh_name();
        self.features.insert("polymorphic / dependent definition");
        Some((name, tys, def))
    }

    fn forward_alias_defs(&mut self) -> Option<Vec<(String, S, S)>> {
        let y = self.fresh_name();
        let t = self.fresh_name();
        let u = self.fresh_name();
        self.features.insert("forward type alias");
        Some(vec![
            (y, sast::var(&t), S::Lit(BigInt::from(4))),
            (t, S::Type, sast::var(&u)),
            (u, S::Type, S::Int),
        ])
    }
}

pub fn contains_group(s: &S) -> bool {
    match s {
        S::Let { .. } => true,
        S::Lam { ann, body, .. } => ann.as_ref().is_some_and(|a| contains_group(a)) || contains_group(body),
        S::Pi { dom, cod, .. } => contains_group(dom) || contains_group(cod),
        S::App(a, b) | S::Bin(_, a, b) => contains_group(a) || contains_group(b),
        S::Neg(a) | S::Paren(a) => contains_group(a),
        S::If(a, b, c) => contains_group(a) || contains_group(b) || contains_group(c),
        _ => false,
    }
}

/// A generated program with everything the checks need to know about it.
pub struct Program {
    pub s: S,
    pub text: String,
    /// The type the generator built the program at, as a surface term.
    pub ty: S,
    pub features: BTreeSet<&'static str>,
}

/// Programs with a recursive type-level function are not perturbed: a perturbed recursion in a
/// *type* makes the type checker diverge (legitimately), and each such case costs a watchdog
/// period or a stack exhaustion.
pub fn perturbation_safe(p: &Program) -> bool {
    !p.features.contains("recursive type-level function used in an annotation")
}

/// Generate one closed program. `goal_kind`: 0 = int, 1 = bool, 2 = any small type.
pub fn gen_program(ch: &mut Ch, cfg: ProgCfg, goal_kind: usize, fuel: usize) -> Option<Program> {
    gen_program_at(ch, cfg, goal_kind, None, fuel)
}

/// A closed type (as a surface term) usable as a goal for several programs.
pub fn gen_goal_type(ch: &mut Ch) -> Option<S> {
    let mut g = ProgGen::new(ch, ProgCfg::default());
    let t = g.gen_type(3)?;
    g.eval_s(&t)?;
    Some(t)
}

/// Like `gen_program`, at a given closed goal type when `goal_s` is given.
pub fn gen_program_at(ch: &mut Ch, cfg: ProgCfg, goal_kind: usize, goal_s: Option<&S>, fuel: usize) -> Option<Program> {
    let mut g = ProgGen::new(ch, cfg);
    let goal: Rc<V> = match (goal_s, goal_kind) {
        (Some(t), _) => g.eval_s(t)?,
        (None, 0) => Rc::new(V::Int),
        (None, 1) => Rc::new(V::Bool),
        _ => {
            let t = g.gen_type(3)?;
            g.eval_s(&t)?
        }
    };
    let ty = g.quote_s(&goal)?;
    g.top_fuel = fuel;
    let s = g.make(&goal, fuel)?.flatten();
    let text = sast::print_plain(&s);
    Some(Program { s, text, ty, features: g.features.clone() })
}

/// Erasure: drop parameter and definition annotations / replace type subterms by `_`, biased to
/// the annotations inference can recover (base-typed parameters, definition annotations).
pub fn erase(s: &S, ch: &mut Ch, erased: &mut usize) -> S {
    let e = |x: &S, ch: &mut Ch, erased: &mut usize| Box::new(erase(x, ch, erased));
    match s {
        S::Lam { name, implicit, ann, body } => {
            let ann2 = match ann {
                Some(a) => {
                    let base = matches!(a.strip(), S::Int | S::Bool | S::Type);
                    if (name.starts_with("late") && ch.chance(3, 4)) || (base && ch.chance(1, 3)) || (!base && ch.chance(1, 12)) {
                        *erased += 1;
                        None
                    } else if ch.chance(1, 16) {
                        *erased += 1;
                        Some(Box::new(S::Var(PLACEHOLDER.to_owned())))
                    } else {
                        Some(e(a, ch, erased))
                    }
                }
                None => None,
            };
            S::Lam { name: name.clone(), implicit: *implicit, ann: ann2, body: e(body, ch, erased) }
        }
        S::Pi { name, implicit, dom, cod } => S::Pi { name: name.clone(), implicit: *implicit, dom: e(dom, ch, erased), cod: e(cod, ch, erased) },
        S::App(a, b) => S::App(e(a, ch, erased), e(b, ch, erased)),
        S::Bin(op, a, b) => S::Bin(*op, e(a, ch, erased), e(b, ch, erased)),
        S::Neg(a) => S::Neg(e(a, ch, erased)),
        S::Paren(a) => S::Paren(e(a, ch, erased)),
        S::If(a, b, c) => S::If(e(a, ch, erased), e(b, ch, erased), e(c, ch, erased)),
        S::Let { defs, body } => S::Let {
            defs: defs
                .iter()
                .map(|d| {
                    let ann = match &d.ann {
                        Some(a) => {
                            if (d.name.starts_with("lateg") && ch.chance(3, 4)) || ch.chance(1, 3) {
                                *erased += 1;
                                None
                            } else {
                                Some(erase(a, ch, erased))
                            }
                        }
                        None => None,
                    };
                    Def { name: d.name.clone(), ann, def: erase(&d.def, ch, erased) }
                })
                .collect(),
            body: e(body, ch, erased),
        },
        other => other.clone(),
    }
}
