//! Layout generator: renders a token list with generated gaps (spaces, tabs, comments, line
//! breaks) that the C10 rule says do not change the token stream.

use crate::refs::lex::{self, Tri};
use crate::tok::{K, Tok};
use crate::util::Ch;

#[derive(Default, Clone, Debug)]
pub struct LayoutStats {
    pub comments: usize,
    pub empty_comments: usize,
    pub multibyte_comments: usize,
    pub eof_comment: bool,
    pub nonsep_breaks: usize,
    pub break_after_operator: usize,
    pub break_before_operator: usize,
    pub break_before_close: usize,
    pub terminators: usize,
    pub terminators_as_breaks: usize,
}

const COMMENT_TEXTS: [&str; 12] = [
    "", " plain", " ends in é", " 名", " emoji 👩‍💻", " # nested #", " x = 1; y", "#", " if then else (", "\t", " ٣", " a ",
];

fn is_operator(k: K) -> bool {
    matches!(
        k,
        K::Asterisk | K::Colon | K::DoubleEquals | K::Equals | K::GreaterThan | K::GreaterThanOrEqual | K::LessThan
            | K::LessThanOrEqual | K::Minus | K::Plus | K::Slash | K::ThickArrow | K::ThinArrow | K::Then | K::Else
    )
}

fn comment(ch: &mut Ch, st: &mut LayoutStats) -> String {
    let t = COMMENT_TEXTS[ch.pick(COMMENT_TEXTS.len())];
    st.comments += 1;
    if t.is_empty() {
        st.empty_comments += 1;
    }
    if t.chars().next_back().is_some_and(|c| c.len_utf8() > 1) {
        st.multibyte_comments += 1;
    }
    format!("#{t}")
}

/// Layout without any line break.
fn inline_gap(ch: &mut Ch, may_be_empty: bool) -> String {
    match ch.pick(6) {
        0 if may_be_empty => String::new(),
        0 | 1 | 2 => " ".to_owned(),
        3 => "  ".to_owned(),
        4 => "\t".to_owned(),
        _ => " \u{00A0} ".to_owned(),
    }
}

/// Layout that contains at least one line break (spaces, comments, several breaks).
fn breaking_gap(ch: &mut Ch, st: &mut LayoutStats) -> String {
    let mut s = String::new();
    let pieces = 1 + ch.pick(3);
    for _ in 0..pieces {
        s.push_str(["", " ", "  ", "\t"][ch.pick(4)]);
        if ch.chance(1, 3) {
            s.push_str(&comment(ch, st));
        }
        s.push_str(if ch.chance(1, 6) { "\r\n" } else { "\n" });
    }
    s.push_str(["", " ", "    "][ch.pick(3)]);
    s
}

/// Render `toks` (which may contain terminators of either kind) under a generated layout.
pub fn render(toks: &[Tok], ch: &mut Ch) -> (String, LayoutStats) {
    let mut st = LayoutStats::default();
    let mut out = String::new();
    // Leading layout: anything.
    if ch.chance(1, 3) {
        out.push_str(&breaking_gap(ch, &mut st));
    } else if ch.chance(1, 3) {
        out.push_str(&inline_gap(ch, true));
    }
    let mut i = 0;
    while i < toks.len() {
        let t = &toks[i];
        if t.kind() == K::Terminator {
            st.terminators += 1;
            let prev = if i > 0 { Some(toks[i - 1].kind()) } else { None };
            let next = toks.get(i + 1).map(Tok::kind);
            let break_ok = match (prev, next) {
                (Some(p), Some(n)) => p != K::Terminator && n != K::Terminator && lex::terminator_between(p, n) == Tri::Yes,
                _ => false,
            };
            if break_ok && ch.chance(1, 2) {
                st.terminators_as_breaks += 1;
                out.push_str(&breaking_gap(ch, &mut st));
            } else {
                out.push_str(&inline_gap(ch, true));
                out.push(';');
                // After `;` a line break would be a second terminator (`;` can end an expression).
                out.push_str(&inline_gap(ch, true));
            }
            i += 1;
            continue;
        }
        out.push_str(&t.plain());
        // Gap to the next non-terminator token (if the next token is a terminator it is handled
        // above and brings its own layout).
        if let Some(n) = toks.get(i + 1) {
            if n.kind() != K::Terminator {
                let rule = lex::terminator_between(t.kind(), n.kind());
                if rule == Tri::No && ch.chance(1, 3) {
                    st.nonsep_breaks += 1;
                    if is_operator(t.kind()) || matches!(t.kind(), K::LeftParen | K::LeftCurly | K::If) {
                        st.break_after_operator += 1;
                    }
                    if is_operator(n.kind()) {
                        st.break_before_operator += 1;
                    }
                    if matches!(n.kind(), K::RightParen | K::RightCurly) {
                        st.break_before_close += 1;
                    }
                    out.push_str(&breaking_gap(ch, &mut st));
                } else {
                    out.push_str(&inline_gap(ch, lex::separable(t, n)));
                }
            }
        }
        i += 1;
    }
    // Trailing layout: anything, possibly a final comment without a line break.
    match ch.pick(5) {
        0 => {}
        1 => out.push_str(&inline_gap(ch, true)),
        2 => out.push_str(&breaking_gap(ch, &mut st)),
        3 => {
            out.push(' ');
            out.push_str(&comment(ch, &mut st));
            st.eof_comment = true;
        }
        _ => {
            out.push_str(&breaking_gap(ch, &mut st));
            out.push_str(&comment(ch, &mut st));
            st.eof_comment = true;
        }
    }
    (out, st)
}
