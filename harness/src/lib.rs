#![allow(dead_code, unused_imports, unused_variables, unused_macros, unused_mut, clippy::all)]
// gram's own modules, pulled in at the crate root by build.rs (see DESIGN.md 1.1).
include!(concat!(env!("OUT_DIR"), "/gram_mods.rs"));

pub mod bridge;
pub mod checks;
pub mod cli;
pub mod dterm;
pub mod gens;
pub mod pipe;
pub mod refs;
pub mod runner;
pub mod sast;
pub mod tok;
pub mod typed;
pub mod util;
