//! Driving gram's library pipeline (tokenize -> parse -> type_check -> step loop) the way
//! `main.rs::run` does, with snapshots and classification for the oracles.

use crate::dterm::D;
use crate::error::Error;
use crate::evaluator::{is_value, step};
use crate::runner::catch;
use crate::term::{Term, Variant};
use num_traits::Zero;

pub fn heads(errs: &[Error]) -> Vec<String> {
    errs.iter().map(|e| e.message.lines().next().unwrap_or("").to_owned()).collect()
}

pub enum Front<'a> {
    TokenizeErr(Vec<String>),
    ParseErr(Vec<String>),
    TypeErr { errors: Vec<String>, parsed: D },
    Accepted {
        /// The parser's output as it was before type checking (holes as `D::Hole`).
        parsed: D,
        elaborated: Term<'a>,
        ty: Term<'a>,
        /// How many times `open` copied an unresolved hole while this program was checked.
        hole_copies: u64,
    },
}

/// Run the front end on `text` and hand the outcome to `f`. A panic in any stage is returned as
/// `Err(stage: message)`.
pub fn with_front<R>(text: &str, f: impl FnOnce(&Front) -> R) -> Result<R, String> {
    let toks = match catch(|| crate::tokenizer::tokenize(None, text)).map_err(|p| format!("tokenize panicked: {p}"))? {
        Ok(t) => t,
        Err(e) => return Ok(f(&Front::TokenizeErr(heads(&e)))),
    };
    let parsed = match catch(|| crate::parser::parse(None, text, &toks, &[])).map_err(|p| format!("parse panicked: {p}"))? {
        Ok(t) => t,
        Err(e) => return Ok(f(&Front::ParseErr(heads(&e)))),
    };
    let snapshot = D::from_gram(&parsed);
    let before = crate::de_bruijn::VERIF_UNRESOLVED_UNIFIERS_OPENED.with(std::cell::Cell::get);
    let checked = catch(|| crate::type_checker::type_check(None, text, &parsed, &mut vec![], &mut vec![]))
        .map_err(|p| format!("type_check panicked: {p}"))?;
    let after = crate::de_bruijn::VERIF_UNRESOLVED_UNIFIERS_OPENED.with(std::cell::Cell::get);
    Ok(match checked {
        Ok((elaborated, ty)) => f(&Front::Accepted { parsed: snapshot, elaborated, ty, hole_copies: after - before }),
        Err(e) => f(&Front::TypeErr { errors: heads(&e), parsed: snapshot }),
    })
}

pub enum Eval<'a> {
    Value(Term<'a>, u64),
    /// Still running when the step budget ran out.
    Running(u64),
    Stuck(Term<'a>, u64),
}

/// gram's own small-step relation under a budget.
pub fn run_steps<'a>(term: &Term<'a>, budget: u64) -> Result<Eval<'a>, String> {
    catch(|| {
        let mut t = term.clone();
        let mut n = 0u64;
        loop {
            if n >= budget {
                return Eval::Running(n);
            }
            match step(&t) {
                Some(next) => {
                    t = next;
                    n += 1;
                }
                None => {
                    return if is_value(&t) { Eval::Value(t, n) } else { Eval::Stuck(t, n) };
                }
            }
        }
    })
    .map_err(|p| format!("step panicked: {p}"))
}

#[derive(Clone, Debug, PartialEq, Eq)]
pub enum StuckKind {
    DivisionByZero,
    /// A variable bound by a group that is being evaluated; `value`: its definition is a
    /// syntactic value (lambda, literal, type former).
    GroupVariable { name: String, definition_is_value: bool },
    FreeVariable(String),
    NonFunctionCall,
    WrongKindOperand,
    WrongKindCondition,
    UnfilledHole,
    Other(String),
}

/// Find the redex that blocks evaluation by descending the call-by-value evaluation contexts.
pub fn classify_stuck(t: &Term) -> StuckKind {
    // Groups we are inside of (evaluating their first definition): each is a list of
    // (name, is_value(definition)).
    fn go(t: &Term, groups: &mut Vec<Vec<(String, bool)>>) -> StuckKind {
        match &t.variant {
            Variant::Unifier(cell, _) => {
                if cell.borrow().is_none() { StuckKind::UnfilledHole } else { StuckKind::Other("a resolved hole that does not step".into()) }
            }
            Variant::Variable(name, index) => {
                let mut i = *index;
                for g in groups.iter().rev() {
                    if i < g.len() {
                        let (n, v) = &g[g.len() - 1 - i];
                        return StuckKind::GroupVariable { name: n.clone(), definition_is_value: *v };
                    }
                    i -= g.len();
                }
                StuckKind::FreeVariable((*name).to_owned())
            }
            Variant::Application(f, a) => {
                if !is_value(f) {
                    go(f, groups)
                } else if !is_value(a) {
                    go(a, groups)
                } else {
                    StuckKind::NonFunctionCall
                }
            }
            Variant::Let(defs, _) => match defs.first() {
                Some((_, _, d)) if !is_value(d) => {
                    groups.push(defs.iter().map(|(n, _, d)| ((*n).to_owned(), is_value(d))).collect());
                    let r = go(d, groups);
                    groups.pop();
                    r
                }
                _ => StuckKind::Other("a group that should step".into()),
            },
            Variant::Negation(a) => {
                if !is_value(a) { go(a, groups) } else { StuckKind::WrongKindOperand }
            }
            Variant::Quotient(a, b) => {
                if !is_value(a) {
                    go(a, groups)
                } else if !is_value(b) {
                    go(b, groups)
                } else if let (Variant::IntegerLiteral(_), Variant::IntegerLiteral(d)) = (&a.variant, &b.variant) {
                    if d.is_zero() { StuckKind::DivisionByZero } else { StuckKind::Other("a division that should step".into()) }
                } else {
                    StuckKind::WrongKindOperand
                }
            }
            Variant::Sum(a, b)
            | Variant::Difference(a, b)
            | Variant::Product(a, b)
            | Variant::LessThan(a, b)
            | Variant::LessThanOrEqualTo(a, b)
            | Variant::EqualTo(a, b)
            | Variant::GreaterThan(a, b)
            | Variant::GreaterThanOrEqualTo(a, b) => {
                if !is_value(a) {
                    go(a, groups)
                } else if !is_value(b) {
                    go(b, groups)
                } else {
                    StuckKind::WrongKindOperand
                }
            }
            Variant::If(c, _, _) => {
                if !is_value(c) { go(c, groups) } else { StuckKind::WrongKindCondition }
            }
            _ => StuckKind::Other("a value".into()),
        }
    }
    go(t, &mut vec![])
}

/// Elaboration may only fill holes: `elab` must equal the pre-check snapshot node for node except
/// where the snapshot has a hole.
pub fn only_holes_filled(snapshot: &D, elab: &D) -> Result<(), String> {
    match (snapshot, elab) {
        (D::Hole, _) => Ok(()),
        (D::Lam(i1, a1, b1), D::Lam(i2, a2, b2)) | (D::Pi(i1, a1, b1), D::Pi(i2, a2, b2)) => {
            if i1 != i2 {
                return Err("implicit flag changed".into());
            }
            if std::mem::discriminant(snapshot) != std::mem::discriminant(elab) {
                return Err("constructor changed".into());
            }
            only_holes_filled(a1, a2)?;
            only_holes_filled(b1, b2)
        }
        (D::App(a1, b1), D::App(a2, b2)) => {
            only_holes_filled(a1, a2)?;
            only_holes_filled(b1, b2)
        }
        (D::Bin(o1, a1, b1), D::Bin(o2, a2, b2)) => {
            if o1 != o2 {
                return Err(format!("operator {} became {}", o1.sym(), o2.sym()));
            }
            only_holes_filled(a1, a2)?;
            only_holes_filled(b1, b2)
        }
        (D::Neg(a1), D::Neg(a2)) => only_holes_filled(a1, a2),
        (D::If(a1, b1, c1), D::If(a2, b2, c2)) => {
            only_holes_filled(a1, a2).map_err(|e| format!("in the condition: {e}"))?;
            only_holes_filled(b1, b2).map_err(|e| format!("in the then branch: {e}"))?;
            only_holes_filled(c1, c2).map_err(|e| format!("in the else branch: {e}"))
        }
        (D::Let(d1, b1), D::Let(d2, b2)) => {
            if d1.len() != d2.len() {
                return Err(format!("a group of {} definitions became one of {}", d1.len(), d2.len()));
            }
            for (k, ((a1, x1), (a2, x2))) in d1.iter().zip(d2).enumerate() {
                only_holes_filled(a1, a2).map_err(|e| format!("in annotation {k}: {e}"))?;
                only_holes_filled(x1, x2).map_err(|e| format!("in definition {k}: {e}"))?;
            }
            only_holes_filled(b1, b2)
        }
        (a, b) => {
            if a == b { Ok(()) } else { Err(format!("`{}` became `{}`", a.show(), b.show())) }
        }
    }
}

/// Two programs checked in one scope, so that their terms share a lifetime (gram's `unify` takes
/// two terms of the same lifetime, and `Term` is invariant in it). `None` if either is rejected.
pub fn with_two_accepted<R>(text_a: &str, text_b: &str, f: impl for<'t> FnOnce(&Term<'t>, &Term<'t>) -> R) -> Result<Option<R>, String> {
    let run = |text_a: &str, text_b: &str| -> Result<Option<R>, String> {
        let ta = match catch(|| crate::tokenizer::tokenize(None, text_a)).map_err(|p| format!("tokenize panicked: {p}"))? {
            Ok(t) => t,
            Err(_) => return Ok(None),
        };
        let tb = match catch(|| crate::tokenizer::tokenize(None, text_b)).map_err(|p| format!("tokenize panicked: {p}"))? {
            Ok(t) => t,
            Err(_) => return Ok(None),
        };
        let pa = match catch(|| crate::parser::parse(None, text_a, &ta, &[])).map_err(|p| format!("parse panicked: {p}"))? {
            Ok(t) => t,
            Err(_) => return Ok(None),
        };
        let pb = match catch(|| crate::parser::parse(None, text_b, &tb, &[])).map_err(|p| format!("parse panicked: {p}"))? {
            Ok(t) => t,
            Err(_) => return Ok(None),
        };
        let ea = match catch(|| crate::type_checker::type_check(None, text_a, &pa, &mut vec![], &mut vec![])).map_err(|p| format!("type_check panicked: {p}"))? {
            Ok((e, _)) => e,
            Err(_) => return Ok(None),
        };
        let eb = match catch(|| crate::type_checker::type_check(None, text_b, &pb, &mut vec![], &mut vec![])).map_err(|p| format!("type_check panicked: {p}"))? {
            Ok((e, _)) => e,
            Err(_) => return Ok(None),
        };
        Ok(Some(f(&ea, &eb)))
    };
    run(text_a, text_b)
}

/// Like `with_two_accepted`, also passing the reported types.
pub fn with_two_checked<R>(
    text_a: &str,
    text_b: &str,
    f: impl for<'t> FnOnce(Option<(&Term<'t>, &Term<'t>)>, Option<(&Term<'t>, &Term<'t>)>) -> R,
) -> Result<R, String> {
    let ta = catch(|| crate::tokenizer::tokenize(None, text_a)).map_err(|p| format!("tokenize panicked: {p}"))?;
    let tb = catch(|| crate::tokenizer::tokenize(None, text_b)).map_err(|p| format!("tokenize panicked: {p}"))?;
    let pa = match &ta {
        Ok(t) => catch(|| crate::parser::parse(None, text_a, t, &[])).map_err(|p| format!("parse panicked: {p}"))?.ok(),
        Err(_) => None,
    };
    let pb = match &tb {
        Ok(t) => catch(|| crate::parser::parse(None, text_b, t, &[])).map_err(|p| format!("parse panicked: {p}"))?.ok(),
        Err(_) => None,
    };
    let ea = match &pa {
        Some(p) => catch(|| crate::type_checker::type_check(None, text_a, p, &mut vec![], &mut vec![])).map_err(|p| format!("type_check panicked: {p}"))?.ok(),
        None => None,
    };
    let eb = match &pb {
        Some(p) => catch(|| crate::type_checker::type_check(None, text_b, p, &mut vec![], &mut vec![])).map_err(|p| format!("type_check panicked: {p}"))?.ok(),
        None => None,
    };
    Ok(f(ea.as_ref().map(|(e, t)| (e, t)), eb.as_ref().map(|(e, t)| (e, t))))
}
