//! R-core and R-cbv: named core terms with globally unique binder ids, normalisation by
//! evaluation (conversion, quoting), an independent type checker for explicit terms, and an
//! independent call-by-value interpreter. Nothing here calls or copies gram's functions.

use crate::dterm::Op;
use crate::sast::{Def, PLACEHOLDER, S};
use crate::term::{Term, Variant};
use num_bigint::BigInt;
use num_traits::Zero;
use std::cell::RefCell;
use std::rc::Rc;

pub type Id = u32;

#[derive(Clone, Debug)]
pub enum K {
    Type,
    Int,
    Bool,
    True,
    False,
    Lit(BigInt),
    Var(Id),
    /// An unresolved hole (with an identity): outside the explicit checker's domain.
    Hole(u64),
    Lam(Id, bool, Rc<K>, Rc<K>),
    Pi(Id, bool, Rc<K>, Rc<K>),
    App(Rc<K>, Rc<K>),
    Let(Rc<Vec<(Id, K, K)>>, Rc<K>),
    Neg(Rc<K>),
    Bin(Op, Rc<K>, Rc<K>),
    If(Rc<K>, Rc<K>, Rc<K>),
}

/// Id -> display name.
#[derive(Default, Clone)]
pub struct Names {
    pub names: Vec<String>,
}

impl Names {
    pub fn fresh(&mut self, name: &str) -> Id {
        self.names.push(name.to_owned());
        (self.names.len() - 1) as Id
    }
    pub fn get(&self, id: Id) -> String {
        self.names.get(id as usize).cloned().unwrap_or_else(|| format!("?{id}"))
    }
}

// ---------------------------------------------------------------------------------------------
// Conversions into K
// ---------------------------------------------------------------------------------------------

/// gram term -> K. `stack` holds the binder ids in scope (innermost last). A resolved hole is read
/// in the shorter scope it was solved in (`shift` entries dropped) — no index arithmetic.
pub fn from_gram(t: &Term, stack: &mut Vec<Id>, names: &mut Names) -> Result<K, String> {
    let rc = |t: &Rc<Term>, stack: &mut Vec<Id>, names: &mut Names| from_gram(t, stack, names).map(Rc::new);
    Ok(match &t.variant {
        Variant::Unifier(cell, shift) => {
            let content = cell.borrow().clone();
            match content {
                None => {
                    // The same cell is the same unknown (the scope it is read in is not part of
                    // its identity: scope safety of solutions is checked separately).
                    K::Hole(Rc::as_ptr(cell) as usize as u64)
                }
                Some(inner) => {
                    if *shift > stack.len() {
                        return Err(format!("hole shift {shift} exceeds the scope depth {}", stack.len()));
                    }
                    let mut shorter = stack[..stack.len() - shift].to_vec();
                    from_gram(&inner, &mut shorter, names)?
                }
            }
        }
        Variant::Type => K::Type,
        Variant::Integer => K::Int,
        Variant::Boolean => K::Bool,
        Variant::True => K::True,
        Variant::False => K::False,
        Variant::IntegerLiteral(n) => K::Lit(n.clone()),
        Variant::Variable(name, i) => {
            if *i >= stack.len() {
                return Err(format!("variable {name} has index {i} but only {} binders are in scope", stack.len()));
            }
            K::Var(stack[stack.len() - 1 - i])
        }
        Variant::Lambda(n, im, a, b) => {
            let a = rc(a, stack, names)?;
            let id = names.fresh(n);
            stack.push(id);
            let b = rc(b, stack, names);
            stack.pop();
            K::Lam(id, *im, a, b?)
        }
        Variant::Pi(n, im, a, b) => {
            let a = rc(a, stack, names)?;
            let id = names.fresh(n);
            stack.push(id);
            let b = rc(b, stack, names);
            stack.pop();
            K::Pi(id, *im, a, b?)
        }
        Variant::Application(a, b) => K::App(rc(a, stack, names)?, rc(b, stack, names)?),
        Variant::Let(defs, body) => {
            let base = stack.len();
            let ids: Vec<Id> = defs.iter().map(|(n, _, _)| names.fresh(n)).collect();
            stack.extend(ids.iter().copied());
            let mut out = vec![];
            let mut err = None;
            for ((_, a, d), id) in defs.iter().zip(&ids) {
                match (from_gram(a, stack, names), from_gram(d, stack, names)) {
                    (Ok(a), Ok(d)) => out.push((*id, a, d)),
                    (Err(e), _) | (_, Err(e)) => {
                        err = Some(e);
                        break;
                    }
                }
            }
            let body = if err.is_none() { rc(body, stack, names) } else { Err(err.clone().unwrap()) };
            stack.truncate(base);
            K::Let(Rc::new(out), body?)
        }
        Variant::Negation(a) => K::Neg(rc(a, stack, names)?),
        Variant::Sum(a, b) => K::Bin(Op::Add, rc(a, stack, names)?, rc(b, stack, names)?),
        Variant::Difference(a, b) => K::Bin(Op::Sub, rc(a, stack, names)?, rc(b, stack, names)?),
        Variant::Product(a, b) => K::Bin(Op::Mul, rc(a, stack, names)?, rc(b, stack, names)?),
        Variant::Quotient(a, b) => K::Bin(Op::Div, rc(a, stack, names)?, rc(b, stack, names)?),
        Variant::LessThan(a, b) => K::Bin(Op::Lt, rc(a, stack, names)?, rc(b, stack, names)?),
        Variant::LessThanOrEqualTo(a, b) => K::Bin(Op::Le, rc(a, stack, names)?, rc(b, stack, names)?),
        Variant::EqualTo(a, b) => K::Bin(Op::Eq, rc(a, stack, names)?, rc(b, stack, names)?),
        Variant::GreaterThan(a, b) => K::Bin(Op::Gt, rc(a, stack, names)?, rc(b, stack, names)?),
        Variant::GreaterThanOrEqualTo(a, b) => K::Bin(Op::Ge, rc(a, stack, names)?, rc(b, stack, names)?),
        Variant::If(a, b, c) => K::If(rc(a, stack, names)?, rc(b, stack, names)?, rc(c, stack, names)?),
    })
}

/// Surface tree -> K. `scope` maps names to ids (innermost last). Omitted annotations and `_`
/// become `Hole`.
pub fn from_s(s: &S, scope: &mut Vec<(String, Id)>, names: &mut Names) -> Result<K, String> {
    let rc = |x: &S, scope: &mut Vec<(String, Id)>, names: &mut Names| from_s(x, scope, names).map(Rc::new);
    Ok(match s {
        S::Type => K::Type,
        S::Int => K::Int,
        S::Bool => K::Bool,
        S::True => K::True,
        S::False => K::False,
        S::Lit(n) => K::Lit(n.clone()),
        S::Var(n) if n == PLACEHOLDER => K::Hole(u64::from(names.fresh("_")) | (1 << 62)),
        S::Var(n) => match scope.iter().rev().find(|(m, _)| m == n) {
            Some((_, id)) => K::Var(*id),
            None => return Err(format!("unbound name {n}")),
        },
        S::Paren(a) => from_s(a, scope, names)?,
        S::Lam { name, implicit, ann, body } => {
            let a = match ann {
                Some(a) => rc(a, scope, names)?,
                None => Rc::new(K::Hole(u64::from(names.fresh("_")) | (1 << 62))),
            };
            let id = names.fresh(name);
            scope.push((if name == PLACEHOLDER { String::new() } else { name.clone() }, id));
            let b = rc(body, scope, names);
            scope.pop();
            K::Lam(id, *implicit, a, b?)
        }
        S::Pi { name, implicit, dom, cod } => {
            let a = rc(dom, scope, names)?;
            let n = name.clone().unwrap_or_else(|| PLACEHOLDER.to_owned());
            let id = names.fresh(&n);
            scope.push((if n == PLACEHOLDER { String::new() } else { n }, id));
            let b = rc(cod, scope, names);
            scope.pop();
            K::Pi(id, *implicit, a, b?)
        }
        S::App(a, b) => K::App(rc(a, scope, names)?, rc(b, scope, names)?),
        S::Neg(a) => K::Neg(rc(a, scope, names)?),
        S::Bin(op, a, b) => K::Bin(*op, rc(a, scope, names)?, rc(b, scope, names)?),
        S::If(a, b, c) => K::If(rc(a, scope, names)?, rc(b, scope, names)?, rc(c, scope, names)?),
        S::Let { defs, body } => {
            let base = scope.len();
            let ids: Vec<Id> = defs.iter().map(|d| names.fresh(&d.name)).collect();
            for (d, id) in defs.iter().zip(&ids) {
                scope.push((if d.name == PLACEHOLDER { String::new() } else { d.name.clone() }, *id));
            }
            let mut out = vec![];
            let mut err = None;
            for (d, id) in defs.iter().zip(&ids) {
                let a = match &d.ann {
                    Some(a) => from_s(a, scope, names),
                    None => Ok(K::Hole(u64::from(names.fresh("_")) | (1 << 62))),
                };
                match (a, from_s(&d.def, scope, names)) {
                    (Ok(a), Ok(x)) => out.push((*id, a, x)),
                    (Err(e), _) | (_, Err(e)) => {
                        err = Some(e);
                        break;
                    }
                }
            }
            let body = if err.is_none() { rc(body, scope, names) } else { Err(err.clone().unwrap()) };
            scope.truncate(base);
            K::Let(Rc::new(out), body?)
        }
    })
}

pub fn has_hole(k: &K) -> bool {
    match k {
        K::Hole(_) => true,
        K::Lam(_, _, a, b) | K::Pi(_, _, a, b) | K::App(a, b) | K::Bin(_, a, b) => has_hole(a) || has_hole(b),
        K::Let(defs, body) => defs.iter().any(|(_, a, d)| has_hole(a) || has_hole(d)) || has_hole(body),
        K::Neg(a) => has_hole(a),
        K::If(a, b, c) => has_hole(a) || has_hole(b) || has_hole(c),
        _ => false,
    }
}

/// K -> surface tree (for printing types and normal forms). Ids print as their names; clashes are
/// avoided by suffixing the id when a name is already in use in the current scope.
pub fn to_s(k: &K, names: &Names, scope: &mut Vec<(Id, String)>) -> S {
    let b = |x: &K, scope: &mut Vec<(Id, String)>| Box::new(to_s(x, names, scope));
    let pick = |id: Id, scope: &Vec<(Id, String)>| {
        let base = names.get(id);
        let base = if base.is_empty() || base == PLACEHOLDER { format!("v{id}") } else { base };
        if scope.iter().any(|(_, n)| *n == base) { format!("{base}_{id}") } else { base }
    };
    match k {
        K::Type => S::Type,
        K::Int => S::Int,
        K::Bool => S::Bool,
        K::True => S::True,
        K::False => S::False,
        K::Lit(n) => {
            if *n < BigInt::zero() {
                S::Neg(Box::new(S::Lit(-n.clone())))
            } else {
                S::Lit(n.clone())
            }
        }
        K::Hole(_) => S::Var(PLACEHOLDER.to_owned()),
        K::Var(id) => match scope.iter().rev().find(|(i, _)| i == id) {
            Some((_, n)) => S::Var(n.clone()),
            None => S::Var(pick(*id, scope)),
        },
        K::Lam(id, im, a, body) => {
            let ann = b(a, scope);
            let n = pick(*id, scope);
            scope.push((*id, n.clone()));
            let body = b(body, scope);
            scope.pop();
            S::Lam { name: n, implicit: *im, ann: Some(ann), body }
        }
        K::Pi(id, im, a, cod) => {
            let dom = b(a, scope);
            let n = pick(*id, scope);
            scope.push((*id, n.clone()));
            let cod2 = b(cod, scope);
            scope.pop();
            if !*im && !mentions(cod, *id) {
                S::Pi { name: None, implicit: false, dom, cod: cod2 }
            } else {
                S::Pi { name: Some(n), implicit: *im, dom, cod: cod2 }
            }
        }
        K::App(f, a) => S::App(b(f, scope), b(a, scope)),
        K::Neg(a) => S::Neg(b(a, scope)),
        K::Bin(op, x, y) => S::Bin(*op, b(x, scope), b(y, scope)),
        K::If(c, t, e) => S::If(b(c, scope), b(t, scope), b(e, scope)),
        K::Let(defs, body) => {
            let base = scope.len();
            for (id, _, _) in defs.iter() {
                let n = pick(*id, scope);
                scope.push((*id, n));
            }
            let ds = defs
                .iter()
                .enumerate()
                .map(|(i, (_, a, d))| Def { name: scope[base + i].1.clone(), ann: Some(to_s(a, names, scope)), def: to_s(d, names, scope) })
                .collect();
            let body = b(body, scope);
            scope.truncate(base);
            S::Let { defs: ds, body }
        }
    }
}

pub fn mentions(k: &K, id: Id) -> bool {
    match k {
        K::Var(i) => *i == id,
        K::Lam(_, _, a, b) | K::Pi(_, _, a, b) | K::App(a, b) | K::Bin(_, a, b) => mentions(a, id) || mentions(b, id),
        K::Let(defs, body) => defs.iter().any(|(_, a, d)| mentions(a, id) || mentions(d, id)) || mentions(body, id),
        K::Neg(a) => mentions(a, id),
        K::If(a, b, c) => mentions(a, id) || mentions(b, id) || mentions(c, id),
        _ => false,
    }
}

// ---------------------------------------------------------------------------------------------
// Normalisation by evaluation
// ---------------------------------------------------------------------------------------------

#[derive(Clone, Debug, PartialEq, Eq)]
pub enum Stop {
    Fuel,
}

pub enum EnvNode {
    Bind(Id, Rc<V>, Env),
    Frame(Rc<Vec<(Id, K, K)>>, Env),
}
pub type Env = Option<Rc<EnvNode>>;

pub fn bind(env: &Env, id: Id, v: Rc<V>) -> Env {
    Some(Rc::new(EnvNode::Bind(id, v, env.clone())))
}
pub fn frame(env: &Env, defs: &Rc<Vec<(Id, K, K)>>) -> Env {
    Some(Rc::new(EnvNode::Frame(defs.clone(), env.clone())))
}

pub struct Clo {
    pub env: Env,
    pub id: Id,
    pub body: Rc<K>,
}

pub struct Thunk {
    pub env: Env,
    pub term: Rc<K>,
}

pub enum V {
    Type,
    Int,
    Bool,
    True,
    False,
    Lit(BigInt),
    Lam(bool, Clo),
    Pi(bool, Rc<V>, Clo),
    /// Stuck terms (heads may be variables, holes, or ill-typed values).
    Var(Id),
    Hole(u64),
    App(Rc<V>, Rc<V>),
    Neg(Rc<V>),
    Bin(Op, Rc<V>, Rc<V>),
    If(Rc<V>, Thunk, Thunk),
}

pub struct Nbe {
    pub fuel: u64,
    pub depth: u32,
    pub max_depth: u32,
    next_fresh: Id,
}

impl Nbe {
    pub fn new(fuel: u64) -> Self {
        Nbe { fuel, depth: 0, max_depth: 4000, next_fresh: 1 << 30 }
    }

    fn tick(&mut self) -> Result<(), Stop> {
        if self.fuel == 0 || self.depth > self.max_depth {
            return Err(Stop::Fuel);
        }
        self.fuel -= 1;
        Ok(())
    }

    pub fn fresh(&mut self) -> Id {
        self.next_fresh += 1;
        self.next_fresh
    }

    fn lookup(&mut self, env: &Env, id: Id) -> Result<Rc<V>, Stop> {
        let mut cur = env.clone();
        while let Some(node) = cur {
            match &*node {
                EnvNode::Bind(i, v, next) => {
                    if *i == id {
                        return Ok(v.clone());
                    }
                    cur = next.clone();
                }
                EnvNode::Frame(defs, next) => {
                    if let Some((_, _, d)) = defs.iter().find(|(i, _, _)| *i == id) {
                        // Definitions are transparent: unfold, in the environment that contains
                        // the frame itself (recursion).
                        let d = d.clone();
                        return self.eval(&d, &Some(node.clone()));
                    }
                    cur = next.clone();
                }
            }
        }
        Ok(Rc::new(V::Var(id)))
    }

    pub fn eval(&mut self, k: &K, env: &Env) -> Result<Rc<V>, Stop> {
        self.tick()?;
        self.depth += 1;
        let r = self.eval_inner(k, env);
        self.depth -= 1;
        r
    }

    fn eval_inner(&mut self, k: &K, env: &Env) -> Result<Rc<V>, Stop> {
        Ok(match k {
            K::Type => Rc::new(V::Type),
            K::Int => Rc::new(V::Int),
            K::Bool => Rc::new(V::Bool),
            K::True => Rc::new(V::True),
            K::False => Rc::new(V::False),
            K::Lit(n) => Rc::new(V::Lit(n.clone())),
            K::Hole(h) => Rc::new(V::Hole(*h)),
            K::Var(id) => self.lookup(env, *id)?,
            K::Lam(id, im, _, body) => Rc::new(V::Lam(*im, Clo { env: env.clone(), id: *id, body: body.clone() })),
            K::Pi(id, im, dom, cod) => {
                let d = self.eval(dom, env)?;
                Rc::new(V::Pi(*im, d, Clo { env: env.clone(), id: *id, body: cod.clone() }))
            }
            K::App(f, a) => {
                let fv = self.eval(f, env)?;
                let av = self.eval(a, env)?;
                self.apply(&fv, av)?
            }
            K::Let(defs, body) => {
                let env2 = frame(env, defs);
                self.eval(body, &env2)?
            }
            K::Neg(a) => {
                let v = self.eval(a, env)?;
                match &*v {
                    V::Lit(n) => Rc::new(V::Lit(-n.clone())),
                    _ => Rc::new(V::Neg(v)),
                }
            }
            K::Bin(op, a, b) => {
                let x = self.eval(a, env)?;
                let y = self.eval(b, env)?;
                binop(*op, x, y)
            }
            K::If(c, t, e) => {
                let cv = self.eval(c, env)?;
                match &*cv {
                    V::True => self.eval(t, env)?,
                    V::False => self.eval(e, env)?,
                    _ => Rc::new(V::If(cv, Thunk { env: env.clone(), term: t.clone() }, Thunk { env: env.clone(), term: e.clone() })),
                }
            }
        })
    }

    pub fn apply(&mut self, f: &Rc<V>, a: Rc<V>) -> Result<Rc<V>, Stop> {
        match &**f {
            V::Lam(_, clo) => self.apply_clo(clo, a),
            _ => Ok(Rc::new(V::App(f.clone(), a))),
        }
    }

    pub fn apply_clo(&mut self, clo: &Clo, a: Rc<V>) -> Result<Rc<V>, Stop> {
        let env = bind(&clo.env, clo.id, a);
        self.eval(&clo.body, &env)
    }

    pub fn force(&mut self, t: &Thunk) -> Result<Rc<V>, Stop> {
        self.eval(&t.term, &t.env)
    }

    /// Definitional equality: beta, delta for group definitions, arithmetic, `if`; no eta;
    /// lambda annotations ignored; pi domains and implicit flags compared.
    pub fn conv(&mut self, a: &Rc<V>, b: &Rc<V>) -> Result<bool, Stop> {
        self.tick()?;
        if Rc::ptr_eq(a, b) {
            return Ok(true);
        }
        self.depth += 1;
        let r = self.conv_inner(a, b);
        self.depth -= 1;
        r
    }

    fn conv_inner(&mut self, a: &Rc<V>, b: &Rc<V>) -> Result<bool, Stop> {
        Ok(match (&**a, &**b) {
            (V::Type, V::Type) | (V::Int, V::Int) | (V::Bool, V::Bool) | (V::True, V::True) | (V::False, V::False) => true,
            (V::Lit(x), V::Lit(y)) => x == y,
            (V::Var(x), V::Var(y)) => x == y,
            (V::Hole(x), V::Hole(y)) => x == y,
            (V::Hole(_), _) | (_, V::Hole(_)) => false,
            (V::Lam(i1, c1), V::Lam(i2, c2)) => {
                if i1 != i2 {
                    return Ok(false);
                }
                let x = Rc::new(V::Var(self.fresh()));
                let r1 = self.apply_clo(c1, x.clone())?;
                let r2 = self.apply_clo(c2, x)?;
                self.conv(&r1, &r2)?
            }
            (V::Pi(i1, d1, c1), V::Pi(i2, d2, c2)) => {
                if i1 != i2 || !self.conv(d1, d2)? {
                    return Ok(false);
                }
                let x = Rc::new(V::Var(self.fresh()));
                let r1 = self.apply_clo(c1, x.clone())?;
                let r2 = self.apply_clo(c2, x)?;
                self.conv(&r1, &r2)?
            }
            (V::App(f1, a1), V::App(f2, a2)) => self.conv(f1, f2)? && self.conv(a1, a2)?,
            (V::Neg(x), V::Neg(y)) => self.conv(x, y)?,
            (V::Bin(o1, x1, y1), V::Bin(o2, x2, y2)) => o1 == o2 && self.conv(x1, x2)? && self.conv(y1, y2)?,
            (V::If(c1, t1, e1), V::If(c2, t2, e2)) => {
                if !self.conv(c1, c2)? {
                    return Ok(false);
                }
                self.conv_thunk(t1, t2)? && self.conv_thunk(e1, e2)?
            }
            _ => false,
        })
    }

    fn conv_thunk(&mut self, a: &Thunk, b: &Thunk) -> Result<bool, Stop> {
        let same_env = match (&a.env, &b.env) {
            (None, None) => true,
            (Some(x), Some(y)) => Rc::ptr_eq(x, y),
            _ => false,
        };
        if same_env && Rc::ptr_eq(&a.term, &b.term) {
            return Ok(true);
        }
        let x = self.force(a)?;
        let y = self.force(b)?;
        self.conv(&x, &y)
    }

    /// Read a value back as a (full) normal form.
    pub fn quote(&mut self, v: &Rc<V>, names: &mut Names) -> Result<K, Stop> {
        self.tick()?;
        self.depth += 1;
        let r = self.quote_inner(v, names);
        self.depth -= 1;
        r
    }

    fn quote_inner(&mut self, v: &Rc<V>, names: &mut Names) -> Result<K, Stop> {
        Ok(match &**v {
            V::Type => K::Type,
            V::Int => K::Int,
            V::Bool => K::Bool,
            V::True => K::True,
            V::False => K::False,
            V::Lit(n) => K::Lit(n.clone()),
            V::Var(id) => K::Var(*id),
            V::Hole(h) => K::Hole(*h),
            V::Lam(im, clo) => {
                let id = names.fresh(&names.get(clo.id));
                let body = self.apply_clo(clo, Rc::new(V::Var(id)))?;
                K::Lam(id, *im, Rc::new(K::Hole(0)), Rc::new(self.quote(&body, names)?))
            }
            V::Pi(im, dom, clo) => {
                let d = self.quote(dom, names)?;
                let id = names.fresh(&names.get(clo.id));
                let body = self.apply_clo(clo, Rc::new(V::Var(id)))?;
                K::Pi(id, *im, Rc::new(d), Rc::new(self.quote(&body, names)?))
            }
            V::App(f, a) => K::App(Rc::new(self.quote(f, names)?), Rc::new(self.quote(a, names)?)),
            V::Neg(a) => K::Neg(Rc::new(self.quote(a, names)?)),
            V::Bin(op, a, b) => K::Bin(*op, Rc::new(self.quote(a, names)?), Rc::new(self.quote(b, names)?)),
            V::If(c, t, e) => {
                let tv = self.force(t)?;
                let ev = self.force(e)?;
                K::If(Rc::new(self.quote(c, names)?), Rc::new(self.quote(&tv, names)?), Rc::new(self.quote(&ev, names)?))
            }
        })
    }
}

pub fn truncated_div(a: &BigInt, b: &BigInt) -> BigInt {
    // BigInt's `/` truncates toward zero; kept behind one function so that the self-test can
    // cross-check it against i128.
    a / b
}

fn binop(op: Op, x: Rc<V>, y: Rc<V>) -> Rc<V> {
    if let (V::Lit(a), V::Lit(b)) = (&*x, &*y) {
        let bool_v = |c: bool| Rc::new(if c { V::True } else { V::False });
        return match op {
            Op::Add => Rc::new(V::Lit(a + b)),
            Op::Sub => Rc::new(V::Lit(a - b)),
            Op::Mul => Rc::new(V::Lit(a * b)),
            Op::Div => {
                if b.is_zero() {
                    Rc::new(V::Bin(op, x.clone(), y.clone()))
                } else {
                    Rc::new(V::Lit(truncated_div(a, b)))
                }
            }
            Op::Lt => bool_v(a < b),
            Op::Le => bool_v(a <= b),
            Op::Eq => bool_v(a == b),
            Op::Gt => bool_v(a > b),
            Op::Ge => bool_v(a >= b),
        };
    }
    Rc::new(V::Bin(op, x, y))
}

// ---------------------------------------------------------------------------------------------
// The independent type checker for explicit terms
// ---------------------------------------------------------------------------------------------

#[derive(Clone, Debug, PartialEq, Eq)]
pub enum TcErr {
    /// The term violates a typing rule (rule name, explanation).
    Ill(&'static str, String),
    /// The term contains an unresolved hole: outside the explicit checker's domain.
    Hole,
    Fuel,
}

impl From<Stop> for TcErr {
    fn from(_: Stop) -> Self {
        TcErr::Fuel
    }
}

pub enum CtxNode {
    Cons(Id, Rc<V>, TCtx),
}
pub type TCtx = Option<Rc<CtxNode>>;

pub fn ctx_bind(ctx: &TCtx, id: Id, ty: Rc<V>) -> TCtx {
    Some(Rc::new(CtxNode::Cons(id, ty, ctx.clone())))
}

fn ctx_lookup(ctx: &TCtx, id: Id) -> Option<Rc<V>> {
    let mut cur = ctx.clone();
    while let Some(node) = cur {
        let CtxNode::Cons(i, t, next) = &*node;
        if *i == id {
            return Some(t.clone());
        }
        cur = next.clone();
    }
    None
}

pub struct Tc {
    pub nbe: Nbe,
    pub names: Names,
    /// Check that let annotations are themselves well-typed types (the premise the recorded
    /// finding K03a is about). `false` skips exactly that premise.
    pub check_let_annotations: bool,
}

impl Tc {
    pub fn new(names: Names, fuel: u64) -> Self {
        Tc { nbe: Nbe::new(fuel), names, check_let_annotations: true }
    }

    pub fn show(&mut self, v: &Rc<V>) -> String {
        match self.nbe.quote(v, &mut self.names) {
            Ok(k) => crate::sast::print_plain(&to_s(&k, &self.names, &mut vec![])),
            Err(_) => "<out of fuel>".to_owned(),
        }
    }

    fn is_type(&mut self, k: &K, env: &Env, ctx: &TCtx, what: &'static str) -> Result<(), TcErr> {
        let t = self.infer(k, env, ctx)?;
        let ty = Rc::new(V::Type);
        if !self.nbe.conv(&t, &ty)? {
            let shown = self.show(&t);
            return Err(TcErr::Ill(what, format!("expected a type, found something of type {shown}")));
        }
        Ok(())
    }

    pub fn infer(&mut self, k: &K, env: &Env, ctx: &TCtx) -> Result<Rc<V>, TcErr> {
        self.nbe.tick()?;
        self.nbe.depth += 1;
        let r = self.infer_inner(k, env, ctx);
        self.nbe.depth -= 1;
        r
    }

    fn infer_inner(&mut self, k: &K, env: &Env, ctx: &TCtx) -> Result<Rc<V>, TcErr> {
        let int = || Rc::new(V::Int);
        Ok(match k {
            K::Type | K::Int | K::Bool => Rc::new(V::Type),
            K::True | K::False => Rc::new(V::Bool),
            K::Lit(_) => int(),
            K::Hole(_) => return Err(TcErr::Hole),
            K::Var(id) => match ctx_lookup(ctx, *id) {
                Some(t) => t,
                None => return Err(TcErr::Ill("variable", format!("variable {} is not in the typing context", self.names.get(*id)))),
            },
            K::Lam(id, im, ann, body) => {
                self.is_type(ann, env, ctx, "lambda: the parameter annotation must be a type")?;
                let a = self.nbe.eval(ann, env)?;
                let ctx2 = ctx_bind(ctx, *id, a.clone());
                let bt = self.infer(body, env, &ctx2)?;
                // The codomain as a closure over the parameter: quote the body type.
                let cod = self.nbe.quote(&bt, &mut self.names)?;
                Rc::new(V::Pi(*im, a, Clo { env: env.clone(), id: *id, body: Rc::new(requote_guard(cod)) }))
            }
            K::Pi(id, _, dom, cod) => {
                self.is_type(dom, env, ctx, "pi: the domain must be a type")?;
                let a = self.nbe.eval(dom, env)?;
                let ctx2 = ctx_bind(ctx, *id, a);
                self.is_type(cod, env, &ctx2, "pi: the codomain must be a type")?;
                Rc::new(V::Type)
            }
            K::App(f, a) => {
                let ft = self.infer(f, env, ctx)?;
                match &*ft {
                    V::Pi(false, dom, clo) => {
                        let at = self.infer(a, env, ctx)?;
                        if !self.nbe.conv(&at, dom)? {
                            let (x, y) = (self.show(&at), self.show(dom));
                            return Err(TcErr::Ill("application: the argument's type must equal the domain", format!("argument has type {x}, the domain is {y}")));
                        }
                        let av = self.nbe.eval(a, env)?;
                        self.nbe.apply_clo(clo, av)?
                    }
                    V::Pi(true, _, _) => return Err(TcErr::Ill("application: implicit functions cannot be applied", String::new())),
                    _ => {
                        let shown = self.show(&ft);
                        return Err(TcErr::Ill("application: the applicand must have a function type", format!("it has type {shown}")));
                    }
                }
            }
            K::Let(defs, body) => {
                let env2 = frame(env, defs);
                let mut ctx2 = ctx.clone();
                for (id, ann, _) in defs.iter() {
                    if has_hole(ann) {
                        return Err(TcErr::Hole);
                    }
                    let a = self.nbe.eval(ann, &env2)?;
                    ctx2 = ctx_bind(&ctx2, *id, a);
                }
                if self.check_let_annotations {
                    for (_, ann, _) in defs.iter() {
                        self.is_type(ann, &env2, &ctx2, "group: every annotation must be a type")?;
                    }
                }
                for (id, _, d) in defs.iter() {
                    let dt = self.infer(d, &env2, &ctx2)?;
                    let at = ctx_lookup(&ctx2, *id).unwrap();
                    if !self.nbe.conv(&dt, &at)? {
                        let (x, y) = (self.show(&dt), self.show(&at));
                        return Err(TcErr::Ill("group: a definition's type must equal its annotation", format!("{} has type {x}, annotated {y}", self.names.get(*id))));
                    }
                }
                self.infer(body, &env2, &ctx2)?
            }
            K::Neg(a) => {
                self.expect(a, env, ctx, &int(), "negation: the operand must be an int")?;
                int()
            }
            K::Bin(op, a, b) => {
                self.expect(a, env, ctx, &int(), "operator: the left operand must be an int")?;
                self.expect(b, env, ctx, &int(), "operator: the right operand must be an int")?;
                if op.is_arith() { int() } else { Rc::new(V::Bool) }
            }
            K::If(c, t, e) => {
                self.expect(c, env, ctx, &Rc::new(V::Bool), "if: the condition must be a bool")?;
                let tt = self.infer(t, env, ctx)?;
                let et = self.infer(e, env, ctx)?;
                if !self.nbe.conv(&tt, &et)? {
                    let (x, y) = (self.show(&tt), self.show(&et));
                    return Err(TcErr::Ill("if: the branches must have equal types", format!("{x} vs {y}")));
                }
                tt
            }
        })
    }

    fn expect(&mut self, k: &K, env: &Env, ctx: &TCtx, want: &Rc<V>, rule: &'static str) -> Result<(), TcErr> {
        let t = self.infer(k, env, ctx)?;
        if !self.nbe.conv(&t, want)? {
            let shown = self.show(&t);
            return Err(TcErr::Ill(rule, format!("found type {shown}")));
        }
        Ok(())
    }
}

fn requote_guard(k: K) -> K {
    k
}

// ---------------------------------------------------------------------------------------------
// R-cbv: call-by-value interpreter
// ---------------------------------------------------------------------------------------------

#[derive(Clone, Debug, PartialEq, Eq)]
pub enum CbvStop {
    DivisionByZero,
    Stuck(String),
    Fuel,
}

pub enum CEnvNode {
    Bind(Id, CV, CEnv),
    Slots(Rc<Vec<(Id, RefCell<Option<CV>>)>>, CEnv),
}
pub type CEnv = Option<Rc<CEnvNode>>;

#[derive(Clone)]
pub enum CV {
    Int(BigInt),
    Bool(bool),
    Clo(CEnv, Id, Rc<K>, bool),
    /// A type value: `type`, `int`, `bool`, or a pi (not evaluated inside, as in the language).
    Ty(Rc<K>, CEnv),
}

impl CV {
    pub fn kind(&self) -> &'static str {
        match self {
            CV::Int(_) => "int literal",
            CV::Bool(_) => "bool literal",
            CV::Clo(..) => "function",
            CV::Ty(k, _) => match &**k {
                K::Pi(..) => "function type",
                _ => "base type",
            },
        }
    }
}

pub struct Cbv {
    pub fuel: u64,
    pub depth: u32,
    pub max_depth: u32,
    pub steps: u64,
    pub max_call_depth: u32,
}

impl Cbv {
    pub fn new(fuel: u64) -> Self {
        Cbv { fuel, depth: 0, max_depth: 20000, steps: 0, max_call_depth: 0 }
    }

    fn lookup(&self, env: &CEnv, id: Id) -> Result<CV, CbvStop> {
        let mut cur = env.clone();
        while let Some(node) = cur {
            match &*node {
                CEnvNode::Bind(i, v, next) => {
                    if *i == id {
                        return Ok(v.clone());
                    }
                    cur = next.clone();
                }
                CEnvNode::Slots(slots, next) => {
                    if let Some((_, cell)) = slots.iter().find(|(i, _)| *i == id) {
                        return match &*cell.borrow() {
                            Some(v) => Ok(v.clone()),
                            None => Err(CbvStop::Stuck("a definition is used before it has been evaluated".into())),
                        };
                    }
                    cur = next.clone();
                }
            }
        }
        Err(CbvStop::Stuck("free variable".into()))
    }

    pub fn eval(&mut self, k: &K, env: &CEnv) -> Result<CV, CbvStop> {
        if self.fuel == 0 || self.depth > self.max_depth {
            return Err(CbvStop::Fuel);
        }
        self.fuel -= 1;
        self.steps += 1;
        self.depth += 1;
        self.max_call_depth = self.max_call_depth.max(self.depth);
        let r = self.eval_inner(k, env);
        self.depth -= 1;
        r
    }

    fn int(&mut self, k: &K, env: &CEnv) -> Result<BigInt, CbvStop> {
        match self.eval(k, env)? {
            CV::Int(n) => Ok(n),
            other => Err(CbvStop::Stuck(format!("an integer operand is a {}", other.kind()))),
        }
    }

    fn eval_inner(&mut self, k: &K, env: &CEnv) -> Result<CV, CbvStop> {
        Ok(match k {
            K::Type | K::Int | K::Bool | K::Pi(..) => CV::Ty(Rc::new(k.clone()), env.clone()),
            K::True => CV::Bool(true),
            K::False => CV::Bool(false),
            K::Lit(n) => CV::Int(n.clone()),
            K::Hole(_) => return Err(CbvStop::Stuck("unfilled hole".into())),
            K::Var(id) => self.lookup(env, *id)?,
            K::Lam(id, im, _, body) => CV::Clo(env.clone(), *id, body.clone(), *im),
            K::App(f, a) => {
                // Applicand first, then the argument, then the call.
                let fv = self.eval(f, env)?;
                let av = self.eval(a, env)?;
                match fv {
                    CV::Clo(cenv, id, body, _) => {
                        let env2 = Some(Rc::new(CEnvNode::Bind(id, av, cenv)));
                        self.eval(&body, &env2)?
                    }
                    other => return Err(CbvStop::Stuck(format!("call of a {}", other.kind()))),
                }
            }
            K::Let(defs, body) => {
                let slots: Rc<Vec<(Id, RefCell<Option<CV>>)>> = Rc::new(defs.iter().map(|(id, _, _)| (*id, RefCell::new(None))).collect());
                let env2 = Some(Rc::new(CEnvNode::Slots(slots.clone(), env.clone())));
                for (i, (_, _, d)) in defs.iter().enumerate() {
                    let v = self.eval(d, &env2)?;
                    *slots[i].1.borrow_mut() = Some(v);
                }
                self.eval(body, &env2)?
            }
            K::Neg(a) => CV::Int(-self.int(a, env)?),
            K::Bin(op, a, b) => {
                let x = self.int(a, env)?;
                let y = self.int(b, env)?;
                match op {
                    Op::Add => CV::Int(x + y),
                    Op::Sub => CV::Int(x - y),
                    Op::Mul => CV::Int(x * y),
                    Op::Div => {
                        if y.is_zero() {
                            return Err(CbvStop::DivisionByZero);
                        }
                        CV::Int(truncated_div(&x, &y))
                    }
                    Op::Lt => CV::Bool(x < y),
                    Op::Le => CV::Bool(x <= y),
                    Op::Eq => CV::Bool(x == y),
                    Op::Gt => CV::Bool(x > y),
                    Op::Ge => CV::Bool(x >= y),
                }
            }
            K::If(c, t, e) => match self.eval(c, env)? {
                CV::Bool(true) => self.eval(t, env)?,
                CV::Bool(false) => self.eval(e, env)?,
                other => return Err(CbvStop::Stuck(format!("branching on a {}", other.kind()))),
            },
        })
    }
}
