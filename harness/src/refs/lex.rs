//! R-lex: reference lexer and layout rule, written from the statements of C09 / C10 (not from
//! tokenizer.rs). Produces the non-layout tokens with byte ranges, the positions of unexpected
//! symbols, and — via `terminator_between` — the three-valued line-break rule.

use crate::tok::{K, KEYWORDS, Tok};
use num_bigint::BigInt;

#[derive(Clone, Debug, PartialEq, Eq)]
pub struct RTok {
    pub tok: Tok,
    pub start: usize,
    pub end: usize,
}

#[derive(Clone, Debug)]
pub struct Lexed {
    /// Tokens other than line-break terminators (`;` included), in source order.
    pub toks: Vec<RTok>,
    /// Byte positions of characters that cannot begin or continue any token and are outside
    /// comments: the unexpected symbols.
    pub unexpected: Vec<usize>,
    /// Byte ranges of comments (from `#` up to, not including, the line break or end of input).
    pub comments: Vec<(usize, usize)>,
}

/// Independent decimal conversion (does not use `BigInt::parse_bytes`, which the tokenizer uses).
pub fn decimal(digits: &str) -> BigInt {
    let mut acc = BigInt::from(0u8);
    // Chunks of up to 18 digits fit in u64.
    let bytes = digits.as_bytes();
    let mut i = 0;
    while i < bytes.len() {
        let j = (i + 18).min(bytes.len());
        let mut chunk: u64 = 0;
        let mut scale: u64 = 1;
        for b in &bytes[i..j] {
            assert!(b.is_ascii_digit());
            chunk = chunk * 10 + u64::from(b - b'0');
            scale *= 10;
        }
        acc = acc * BigInt::from(scale) + BigInt::from(chunk);
        i = j;
    }
    acc
}

pub fn lex(text: &str) -> Lexed {
    let chars: Vec<(usize, char)> = text.char_indices().collect();
    let n = chars.len();
    let pos = |k: usize| if k < n { chars[k].0 } else { text.len() };
    let mut out = Lexed { toks: vec![], unexpected: vec![], comments: vec![] };
    let mut k = 0;
    while k < n {
        let (i, c) = chars[k];
        // Comment: `#` to the end of the line.
        if c == '#' {
            let mut j = k + 1;
            while j < n && chars[j].1 != '\n' {
                j += 1;
            }
            out.comments.push((i, pos(j)));
            k = j;
            continue;
        }
        if c.is_whitespace() {
            k += 1;
            continue;
        }
        // Identifier or keyword: maximal munch.
        if c.is_alphabetic() || c == '_' {
            let mut j = k + 1;
            while j < n && (chars[j].1.is_alphanumeric() || chars[j].1 == '_') {
                j += 1;
            }
            let word = &text[i..pos(j)];
            let tok = if KEYWORDS.contains(&word) {
                Tok::Simple(match word {
                    "bool" => K::Boolean,
                    "else" => K::Else,
                    "false" => K::False,
                    "if" => K::If,
                    "int" => K::Integer,
                    "then" => K::Then,
                    "true" => K::True,
                    _ => K::Type,
                })
            } else {
                Tok::Ident(word.to_owned())
            };
            out.toks.push(RTok { tok, start: i, end: pos(j) });
            k = j;
            continue;
        }
        // Integer literal: ASCII digits, maximal munch.
        if c.is_ascii_digit() {
            let mut j = k + 1;
            while j < n && chars[j].1.is_ascii_digit() {
                j += 1;
            }
            out.toks.push(RTok { tok: Tok::Lit(decimal(&text[i..pos(j)])), start: i, end: pos(j) });
            k = j;
            continue;
        }
        // Operators and punctuation; two-character forms are preferred.
        let next = if k + 1 < n { Some(chars[k + 1].1) } else { None };
        let two = |kind: K| (Tok::Simple(kind), 2usize);
        let one = |kind: K| (Tok::Simple(kind), 1usize);
        let m = match (c, next) {
            ('-', Some('>')) => Some(two(K::ThinArrow)),
            ('=', Some('>')) => Some(two(K::ThickArrow)),
            ('=', Some('=')) => Some(two(K::DoubleEquals)),
            ('<', Some('=')) => Some(two(K::LessThanOrEqual)),
            ('>', Some('=')) => Some(two(K::GreaterThanOrEqual)),
            ('-', _) => Some(one(K::Minus)),
            ('=', _) => Some(one(K::Equals)),
            ('<', _) => Some(one(K::LessThan)),
            ('>', _) => Some(one(K::GreaterThan)),
            ('*', _) => Some(one(K::Asterisk)),
            ('+', _) => Some(one(K::Plus)),
            ('/', _) => Some(one(K::Slash)),
            (':', _) => Some(one(K::Colon)),
            ('(', _) => Some(one(K::LeftParen)),
            (')', _) => Some(one(K::RightParen)),
            ('{', _) => Some(one(K::LeftCurly)),
            ('}', _) => Some(one(K::RightCurly)),
            (';', _) => Some((Tok::Semi, 1)),
            _ => None,
        };
        match m {
            Some((tok, len)) => {
                out.toks.push(RTok { tok, start: i, end: pos(k + len) });
                k += len;
            }
            None => {
                out.unexpected.push(i);
                k += 1;
            }
        }
    }
    out
}

#[derive(Clone, Copy, PartialEq, Eq, Debug)]
pub enum Tri {
    Yes,
    No,
    /// The property statement does not settle this cell (only reachable in invalid programs).
    DontCare,
}

/// Can this token end an expression? (`;` counts as yes.) `}` never ends an expression in
/// grammar.y (it only closes an implicit binder), yet the sentence "can end an expression" read
/// loosely could include it; it is only ever followed by an arrow in valid programs, so the cell
/// is left open.
pub fn can_end(k: K, _semi: bool) -> Tri {
    match k {
        K::Identifier | K::IntegerLiteral | K::Integer | K::Boolean | K::Type | K::True | K::False
        | K::RightParen | K::Terminator => Tri::Yes,
        K::RightCurly => Tri::DontCare,
        _ => Tri::No,
    }
}

/// Can this token start an expression? (`;` counts as yes.) The property says a line broken
/// *before an operator* is equivalent to one line, and `-` is an operator, so `-` is No even
/// though a negation starts with it.
pub fn can_start(k: K) -> Tri {
    match k {
        K::Identifier | K::IntegerLiteral | K::Integer | K::Boolean | K::Type | K::True | K::False
        | K::If | K::LeftParen | K::LeftCurly | K::Terminator => Tri::Yes,
        _ => Tri::No,
    }
}

/// Does a line break in the gap between `left` and `right` act as a terminator?
pub fn terminator_between(left: K, right: K) -> Tri {
    match (can_end(left, false), can_start(right)) {
        (Tri::No, _) | (_, Tri::No) => Tri::No,
        (Tri::Yes, Tri::Yes) => Tri::Yes,
        _ => Tri::DontCare,
    }
}

/// The expected full token stream (with line-break terminators) for `text`, or None when the
/// text contains unexpected symbols. `dont_care` lists the indices (into the result) before which
/// a line-break terminator may or may not appear.
pub struct Expected {
    pub toks: Vec<RTok>,
    /// For each gap i (between toks[i] and toks[i+1] of `Lexed::toks`): whether it contains '\n'.
    pub dont_care_after: Vec<usize>,
}

pub fn gap_has_newline(text: &str, from: usize, to: usize) -> Option<usize> {
    text[from..to].find('\n').map(|p| from + p)
}

/// The full expected token stream of `text` (line-break terminators included) by R-lex and the
/// layout rule; None if the text has unexpected symbols or hits a cell the rule leaves open.
pub fn expected_stream(text: &str) -> Option<Vec<Tok>> {
    let l = lex(text);
    if !l.unexpected.is_empty() {
        return None;
    }
    let mut out = vec![];
    for (k, t) in l.toks.iter().enumerate() {
        if k > 0 {
            let prev = &l.toks[k - 1];
            if gap_has_newline(text, prev.end, t.start).is_some() {
                match terminator_between(prev.tok.kind(), t.tok.kind()) {
                    Tri::Yes => out.push(Tok::LineBreak),
                    Tri::No => {}
                    Tri::DontCare => return None,
                }
            }
        }
        out.push(t.tok.clone());
    }
    Some(out)
}

/// Do the two spellings stay two tokens when written without a gap?
pub fn separable(a: &Tok, b: &Tok) -> bool {
    let s = format!("{}{}", a.plain(), b.plain());
    let l = lex(&s);
    l.unexpected.is_empty() && l.toks.len() == 2 && l.toks[0].tok == *a && l.toks[1].tok == *b
}
