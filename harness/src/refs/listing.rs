//! R-listing: what a source excerpt for (text, byte range) must show according to C15, and a
//! parser for the excerpts gram prints (`<n> │ <line>` followed by an overline row of `‾`).

#[derive(Clone, Debug, PartialEq, Eq)]
pub struct ExpectedLine {
    pub number: usize, // 1-based
    /// Character columns (0-based, within the line) that must be marked: the range's characters on
    /// this line, minus leading indentation when the range started on an earlier line, minus
    /// trailing whitespace.
    pub core: Vec<usize>,
    /// Character columns that may be marked: all of the range's characters on this line.
    pub full: Vec<usize>,
    pub text: String,
}

/// Lines spanned by `start..end` (a non-empty range on char boundaries) with their columns.
pub fn expected(text: &str, start: usize, end: usize) -> Vec<ExpectedLine> {
    assert!(start < end && end <= text.len());
    let mut out = vec![];
    let mut pos = 0usize;
    for (i, line) in text.split('\n').enumerate() {
        let line_start = pos;
        let line_end = pos + line.len(); // excludes the '\n'
        pos = line_end + 1;
        // The line (together with its line break) intersects the range.
        if !(line_start < end && start < pos) {
            continue;
        }
        let trimmed = line.trim_end();
        let mut full = vec![];
        let mut core = vec![];
        let first_non_ws = line.char_indices().find(|(_, c)| !c.is_whitespace()).map(|(b, _)| b);
        for (col, (b, _)) in line.char_indices().enumerate() {
            let abs = line_start + b;
            if abs >= start && abs < end {
                full.push(col);
                let in_trimmed = b < trimmed.len();
                let after_indent = start >= line_start + first_non_ws.unwrap_or(0) || first_non_ws.is_some_and(|f| b >= f);
                if in_trimmed && after_indent {
                    core.push(col);
                }
            }
        }
        out.push(ExpectedLine { number: i + 1, core, full, text: trimmed.to_owned() });
    }
    out
}

#[derive(Clone, Debug, PartialEq, Eq)]
pub struct ShownLine {
    pub number: usize,
    pub text: String,
    /// Marked character columns, relative to the start of the quoted line.
    pub marked: Vec<usize>,
}

/// Parse an excerpt as printed without colours. Returns None if the text does not have the shape
/// `<n> │ <line>` / `<gutter> [┊ ] <overline>`.
pub fn parse_listing(listing: &str) -> Option<Vec<ShownLine>> {
    let rows: Vec<&str> = listing.split('\n').collect();
    let mut out = vec![];
    let mut k = 0;
    while k < rows.len() {
        let row = rows[k];
        let bar = row.find(" \u{2502} ")?;
        let number: usize = row[..bar].trim().parse().ok()?;
        let prefix_chars = row[..bar].chars().count() + 3;
        let text = row[bar + " \u{2502} ".len()..].to_owned();
        let mut marked = vec![];
        if k + 1 < rows.len() {
            let over = rows[k + 1];
            // The overline row never contains the gutter bar followed by a digit gutter.
            if !over.contains(" \u{2502} ") {
                for (col, c) in over.chars().enumerate() {
                    if c == '\u{203e}' {
                        marked.push(col.checked_sub(prefix_chars)?);
                    } else if !(c == ' ' || c == '\u{250a}') {
                        return None;
                    }
                }
                k += 1;
            }
        }
        out.push(ShownLine { number, text, marked });
        k += 1;
    }
    Some(out)
}

/// Compare a printed excerpt with the expectation. `Err` explains the first difference.
pub fn compare(listing: &str, text: &str, start: usize, end: usize) -> Result<(), String> {
    let want = expected(text, start, end);
    let Some(got) = parse_listing(listing) else {
        return Err(format!("the excerpt does not have the `<n> │ <line>` shape: {listing:?}"));
    };
    if got.len() != want.len() {
        return Err(format!(
            "the excerpt shows lines {:?}, the range {start}..{end} spans lines {:?}",
            got.iter().map(|l| l.number).collect::<Vec<_>>(),
            want.iter().map(|l| l.number).collect::<Vec<_>>()
        ));
    }
    for (g, w) in got.iter().zip(&want) {
        if g.number != w.number {
            return Err(format!("the excerpt shows line {} where line {} is spanned", g.number, w.number));
        }
        if g.text != w.text {
            return Err(format!("line {} is quoted as {:?} but reads {:?}", g.number, g.text, w.text));
        }
        let ok = w.core.iter().all(|c| g.marked.contains(c)) && g.marked.iter().all(|c| w.full.contains(c));
        if !ok {
            return Err(format!(
                "line {}: marked columns {:?}; the range covers columns {:?} (must mark at least {:?})",
                g.number, g.marked, w.full, w.core
            ));
        }
    }
    Ok(())
}
