pub mod lex;
pub mod subst;
