pub mod chart;
pub mod core;
pub mod lex;
pub mod listing;
pub mod order;
pub mod subst;
