pub mod chart;
pub mod lex;
pub mod listing;
pub mod subst;
