pub mod chart;
pub mod lex;
pub mod subst;
