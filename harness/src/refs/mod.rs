pub mod lex;
