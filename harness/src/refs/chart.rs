//! R-chart: a general context-free recogniser with derivation counting (saturating at 2) and
//! derivation extraction that works directly on the productions *read from /repo/grammar.y*, plus
//! the mapping from a derivation to the surface tree `S` (left-association of the three chain
//! kinds, flattening of right-nested lets) as the header of grammar.y and C07 describe it.

use crate::sast::{Def, Op, S};
use crate::tok::{ALL_KINDS, K, Tok};
use std::collections::HashMap;

#[derive(Clone, Copy, PartialEq, Eq, Debug, Hash)]
pub enum Sym {
    T(K),
    N(usize),
}

#[derive(Clone, Debug)]
pub struct Prod {
    pub lhs: usize,
    pub rhs: Vec<Sym>,
}

#[derive(Clone, Debug)]
pub struct Grammar {
    pub nts: Vec<String>,
    pub prods: Vec<Prod>,
    pub by_lhs: Vec<Vec<usize>>,
    pub start: usize,
    pub tokens_declared: Vec<String>,
}

impl Grammar {
    pub fn nt(&self, name: &str) -> usize {
        self.nts.iter().position(|n| n == name).unwrap_or_else(|| panic!("grammar.y has no rule {name}"))
    }
}

/// Read `%token` declarations and the rules from a Bison file. A rule is an identifier followed by
/// `:`; alternatives are separated by `|`; the closing `;` is optional (grammar.y omits one).
pub fn read_grammar(text: &str) -> Result<Grammar, String> {
    // Strip /* ... */ comments.
    let mut clean = String::new();
    let mut rest = text;
    while let Some(p) = rest.find("/*") {
        clean.push_str(&rest[..p]);
        match rest[p..].find("*/") {
            Some(q) => rest = &rest[p + q + 2..],
            None => {
                rest = "";
            }
        }
    }
    clean.push_str(rest);
    let (head, body) = clean.split_once("%%").ok_or("no %% separator in grammar.y")?;
    let mut tokens_declared = vec![];
    for line in head.lines() {
        if let Some(r) = line.trim().strip_prefix("%token") {
            tokens_declared.extend(r.split_whitespace().map(str::to_owned));
        }
    }
    // Lex the rule section.
    #[derive(Debug, PartialEq, Clone)]
    enum G {
        Id(String),
        Colon,
        Bar,
        Semi,
        Empty,
    }
    let mut toks = vec![];
    let chars: Vec<char> = body.chars().collect();
    let mut i = 0;
    while i < chars.len() {
        let c = chars[i];
        if c.is_whitespace() {
            i += 1;
        } else if c == ':' {
            toks.push(G::Colon);
            i += 1;
        } else if c == '|' {
            toks.push(G::Bar);
            i += 1;
        } else if c == ';' {
            toks.push(G::Semi);
            i += 1;
        } else if c == '%' {
            let mut j = i + 1;
            while j < chars.len() && (chars[j].is_alphanumeric() || chars[j] == '_') {
                j += 1;
            }
            let w: String = chars[i..j].iter().collect();
            if w == "%empty" {
                toks.push(G::Empty);
            } else if w == "%" && chars.get(i + 1) == Some(&'%') {
                break; // second %% : epilogue
            } else {
                return Err(format!("unsupported directive {w} in the rule section"));
            }
            i = j;
        } else if c.is_alphabetic() || c == '_' {
            let mut j = i;
            while j < chars.len() && (chars[j].is_alphanumeric() || chars[j] == '_') {
                j += 1;
            }
            toks.push(G::Id(chars[i..j].iter().collect()));
            i = j;
        } else {
            return Err(format!("unexpected character {c:?} in the rule section of grammar.y"));
        }
    }
    // Collect rule names first.
    let mut nts: Vec<String> = vec![];
    for w in toks.windows(2) {
        if let (G::Id(n), G::Colon) = (&w[0], &w[1]) {
            if nts.contains(n) {
                return Err(format!("rule {n} defined twice"));
            }
            nts.push(n.clone());
        }
    }
    let sym_of = |name: &str| -> Result<Sym, String> {
        if let Some(p) = nts.iter().position(|n| n == name) {
            return Ok(Sym::N(p));
        }
        if let Some(k) = ALL_KINDS.iter().find(|k| k.bison_name() == name) {
            if !tokens_declared.iter().any(|t| t == name) {
                return Err(format!("token {name} is used but not declared"));
            }
            return Ok(Sym::T(*k));
        }
        Err(format!("symbol {name} is neither a rule nor a known token"))
    };
    let mut prods = vec![];
    let mut k = 0;
    while k < toks.len() {
        let G::Id(lhs_name) = &toks[k] else { return Err(format!("expected a rule name, found {:?}", toks[k])) };
        if toks.get(k + 1) != Some(&G::Colon) {
            return Err(format!("expected ':' after {lhs_name}"));
        }
        let lhs = nts.iter().position(|n| n == lhs_name).unwrap();
        k += 2;
        let mut rhs: Vec<Sym> = vec![];
        loop {
            match toks.get(k) {
                None => {
                    prods.push(Prod { lhs, rhs: std::mem::take(&mut rhs) });
                    break;
                }
                Some(G::Semi) => {
                    prods.push(Prod { lhs, rhs: std::mem::take(&mut rhs) });
                    k += 1;
                    break;
                }
                Some(G::Bar) => {
                    prods.push(Prod { lhs, rhs: std::mem::take(&mut rhs) });
                    k += 1;
                }
                Some(G::Empty) => k += 1,
                Some(G::Colon) => return Err("stray ':'".into()),
                Some(G::Id(name)) => {
                    if toks.get(k + 1) == Some(&G::Colon) {
                        // A new rule starts: the previous one had no closing ';'.
                        prods.push(Prod { lhs, rhs: std::mem::take(&mut rhs) });
                        break;
                    }
                    rhs.push(sym_of(name)?);
                    k += 1;
                }
            }
        }
    }
    // The token table must match the 28 tokens the harness knows.
    let mut declared = tokens_declared.clone();
    declared.sort();
    let mut known: Vec<String> = ALL_KINDS.iter().map(|k| k.bison_name().to_owned()).collect();
    known.sort();
    if declared != known {
        return Err(format!("the %token list of grammar.y differs from the harness's token table: {declared:?}"));
    }
    let mut by_lhs = vec![vec![]; nts.len()];
    for (i, p) in prods.iter().enumerate() {
        by_lhs[p.lhs].push(i);
    }
    let start = nts.iter().position(|n| n == "term").ok_or("no rule named term")?;
    Ok(Grammar { nts, prods, by_lhs, start, tokens_declared })
}

pub fn load_repo_grammar() -> Grammar {
    let path = format!("{}/grammar.y", crate::GRAM_REPO);
    let text = std::fs::read_to_string(&path).unwrap_or_else(|e| {
        eprintln!("harness error: cannot read {path}: {e}");
        std::process::exit(2);
    });
    read_grammar(&text).unwrap_or_else(|e| {
        eprintln!("harness error: cannot interpret {path}: {e}");
        std::process::exit(2);
    })
}

#[derive(Clone, Debug)]
pub struct Tree {
    pub prod: usize,
    pub start: usize,
    pub end: usize,
    pub kids: Vec<Node>,
}

#[derive(Clone, Debug)]
pub enum Node {
    Tok(usize),
    Sub(Tree),
}

/// Derivation counter over a fixed token string, memoised on (symbol sequence suffix, span).
pub struct Chart<'g> {
    pub g: &'g Grammar,
    pub kinds: Vec<K>,
    n: usize,
    nt_memo: Vec<u8>,                        // [nt][i][j] -> 0/1/2, 255 = unknown
    seq_memo: HashMap<(u32, u8, u8, u8), u8>, // (prod, pos, i, j)
    nullable: Vec<bool>,
    min_len: Vec<usize>,
}

const UNKNOWN: u8 = 255;

impl<'g> Chart<'g> {
    pub fn new(g: &'g Grammar, kinds: Vec<K>) -> Self {
        let n = kinds.len();
        assert!(n < 250);
        // Minimal yield length per nonterminal (prunes the split search).
        let mut min_len = vec![usize::MAX / 4; g.nts.len()];
        loop {
            let mut changed = false;
            for p in &g.prods {
                let l: usize = p.rhs.iter().map(|s| match s {
                    Sym::T(_) => 1,
                    Sym::N(x) => min_len[*x],
                }).sum();
                if l < min_len[p.lhs] {
                    min_len[p.lhs] = l;
                    changed = true;
                }
            }
            if !changed {
                break;
            }
        }
        let nullable = min_len.iter().map(|l| *l == 0).collect();
        Chart { g, kinds, n, nt_memo: vec![UNKNOWN; g.nts.len() * (n + 1) * (n + 1)], seq_memo: HashMap::new(), nullable, min_len }
    }

    fn idx(&self, nt: usize, i: usize, j: usize) -> usize {
        (nt * (self.n + 1) + i) * (self.n + 1) + j
    }

    fn sym_min(&self, s: Sym) -> usize {
        match s {
            Sym::T(_) => 1,
            Sym::N(x) => self.min_len[x],
        }
    }

    /// Number of derivations (0, 1, or 2 = "two or more") of `nt` over tokens[i..j].
    pub fn count_nt(&mut self, nt: usize, i: usize, j: usize) -> u8 {
        let ix = self.idx(nt, i, j);
        if self.nt_memo[ix] != UNKNOWN {
            return self.nt_memo[ix];
        }
        if j - i < self.min_len[nt] {
            self.nt_memo[ix] = 0;
            return 0;
        }
        // Guard against (non-existent in grammar.y) cyclic unit derivations.
        self.nt_memo[ix] = 0;
        let mut total = 0u8;
        for pi in self.g.by_lhs[nt].clone() {
            total = total.saturating_add(self.count_seq(pi, 0, i, j)).min(2);
            if total >= 2 {
                break;
            }
        }
        self.nt_memo[ix] = total;
        total
    }

    fn count_seq(&mut self, pi: usize, pos: usize, i: usize, j: usize) -> u8 {
        let rhs_len = self.g.prods[pi].rhs.len();
        if pos == rhs_len {
            return u8::from(i == j);
        }
        let key = (pi as u32, pos as u8, i as u8, j as u8);
        if let Some(v) = self.seq_memo.get(&key) {
            return *v;
        }
        let sym = self.g.prods[pi].rhs[pos];
        let rest_min: usize = self.g.prods[pi].rhs[pos + 1..].iter().map(|s| self.sym_min(*s)).sum();
        let mut total = 0u8;
        match sym {
            Sym::T(k) => {
                if i < j && self.kinds[i] == k && j - i - 1 >= rest_min {
                    total = self.count_seq(pi, pos + 1, i + 1, j);
                }
            }
            Sym::N(x) => {
                let lo = i + self.min_len[x];
                let hi = j.saturating_sub(rest_min);
                let last = pos + 1 == rhs_len;
                let mut m = lo;
                while m <= hi && m <= j {
                    if last && m != j {
                        m = j;
                        if m < lo {
                            break;
                        }
                    }
                    let a = self.count_nt(x, i, m);
                    if a > 0 {
                        let b = self.count_seq(pi, pos + 1, m, j);
                        total = total.saturating_add(a.saturating_mul(b)).min(2);
                        if total >= 2 {
                            break;
                        }
                    }
                    m += 1;
                }
            }
        }
        self.seq_memo.insert(key, total);
        total
    }

    pub fn sentence_count(&mut self) -> u8 {
        let n = self.n;
        self.count_nt(self.g.start, 0, n)
    }

    /// Extract the derivation of `nt` over [i, j) (the first one found if there are several).
    pub fn derive(&mut self, nt: usize, i: usize, j: usize) -> Option<Tree> {
        if self.count_nt(nt, i, j) == 0 {
            return None;
        }
        for pi in self.g.by_lhs[nt].clone() {
            if self.count_seq(pi, 0, i, j) > 0 {
                let mut kids = vec![];
                if self.derive_seq(pi, 0, i, j, &mut kids) {
                    return Some(Tree { prod: pi, start: i, end: j, kids });
                }
            }
        }
        None
    }

    fn derive_seq(&mut self, pi: usize, pos: usize, i: usize, j: usize, kids: &mut Vec<Node>) -> bool {
        let rhs_len = self.g.prods[pi].rhs.len();
        if pos == rhs_len {
            return i == j;
        }
        match self.g.prods[pi].rhs[pos] {
            Sym::T(k) => {
                if i < j && self.kinds[i] == k && self.count_seq(pi, pos + 1, i + 1, j) > 0 {
                    kids.push(Node::Tok(i));
                    return self.derive_seq(pi, pos + 1, i + 1, j, kids);
                }
                false
            }
            Sym::N(x) => {
                for m in i..=j {
                    if self.count_nt(x, i, m) > 0 && self.count_seq(pi, pos + 1, m, j) > 0 {
                        let sub = self.derive(x, i, m).expect("counted derivation exists");
                        kids.push(Node::Sub(sub));
                        return self.derive_seq(pi, pos + 1, m, j, kids);
                    }
                }
                false
            }
        }
    }
}

// ---------------------------------------------------------------------------------------------
// Derivation -> S
// ---------------------------------------------------------------------------------------------

/// Intermediate tree that keeps chains right-nested exactly as derived; `Group` marks explicit
/// parentheses.
#[derive(Clone, Debug)]
enum Raw {
    Leaf(S),
    Group(Box<Raw>),
    App(Box<Raw>, Box<Raw>),
    Bin(Op, Box<Raw>, Box<Raw>),
    Neg(Box<Raw>),
    Lam(String, bool, Option<Box<Raw>>, Box<Raw>),
    Pi(Option<String>, bool, Box<Raw>, Box<Raw>),
    If(Box<Raw>, Box<Raw>, Box<Raw>),
    Let(String, Option<Box<Raw>>, Box<Raw>, Box<Raw>),
}

pub struct ToS<'a> {
    pub g: &'a Grammar,
    pub toks: &'a [Tok],
}

impl ToS<'_> {
    fn ident(&self, n: &Node) -> String {
        match n {
            Node::Tok(i) => match &self.toks[*i] {
                Tok::Ident(s) => s.clone(),
                other => panic!("expected an identifier token, found {other:?}"),
            },
            Node::Sub(_) => panic!("expected a token"),
        }
    }

    fn sub<'t>(&self, n: &'t Node) -> &'t Tree {
        match n {
            Node::Sub(t) => t,
            Node::Tok(_) => panic!("expected a subtree"),
        }
    }

    fn raw(&self, t: &Tree) -> Raw {
        let p = &self.g.prods[t.prod];
        let name = self.g.nts[p.lhs].as_str();
        let kid = |k: usize| Box::new(self.raw(self.sub(&t.kids[k])));
        let binop = |op: Op| Raw::Bin(op, kid(0), kid(2));
        match name {
            // Unit / choice rules.
            "term" | "atom" | "small_term" | "medium_term" | "large_term" | "huge_term" | "giant_term"
            | "jumbo_term" => self.raw(self.sub(&t.kids[0])),
            "type" => Raw::Leaf(S::Type),
            "integer" => Raw::Leaf(S::Int),
            "boolean" => Raw::Leaf(S::Bool),
            "true" => Raw::Leaf(S::True),
            "false" => Raw::Leaf(S::False),
            "variable" => Raw::Leaf(S::Var(self.ident(&t.kids[0]))),
            "integer_literal" => match &t.kids[0] {
                Node::Tok(i) => match &self.toks[*i] {
                    Tok::Lit(n) => Raw::Leaf(S::Lit(n.clone())),
                    other => panic!("expected a literal token, found {other:?}"),
                },
                Node::Sub(_) => panic!("expected a token"),
            },
            "lambda" => Raw::Lam(self.ident(&t.kids[0]), false, None, kid(2)),
            "lambda_implicit" => Raw::Lam(self.ident(&t.kids[1]), true, None, kid(4)),
            "annotated_lambda" => Raw::Lam(self.ident(&t.kids[1]), false, Some(kid(3)), kid(6)),
            "annotated_lambda_implicit" => Raw::Lam(self.ident(&t.kids[1]), true, Some(kid(3)), kid(6)),
            "pi" => Raw::Pi(Some(self.ident(&t.kids[1])), false, kid(3), kid(6)),
            "pi_implicit" => Raw::Pi(Some(self.ident(&t.kids[1])), true, kid(3), kid(6)),
            "non_dependent_pi" => Raw::Pi(None, false, kid(0), kid(2)),
            "application" => Raw::App(kid(0), kid(1)),
            "let" => {
                let ann_tree = self.sub(&t.kids[1]);
                let ann = if ann_tree.kids.is_empty() { None } else { Some(Box::new(self.raw(self.sub(&ann_tree.kids[1])))) };
                Raw::Let(self.ident(&t.kids[0]), ann, kid(3), kid(5))
            }
            "negation" => Raw::Neg(kid(1)),
            "sum" => binop(Op::Add),
            "difference" => binop(Op::Sub),
            "product" => binop(Op::Mul),
            "quotient" => binop(Op::Div),
            "less_than" => binop(Op::Lt),
            "less_than_or_equal_to" => binop(Op::Le),
            "equal_to" => binop(Op::Eq),
            "greater_than" => binop(Op::Gt),
            "greater_than_or_equal_to" => binop(Op::Ge),
            "if" => Raw::If(kid(1), kid(3), kid(5)),
            "group" => Raw::Group(kid(1)),
            other => panic!("grammar.y has a rule the harness cannot map to a tree: {other}"),
        }
    }

    pub fn to_s(&self, t: &Tree) -> S {
        finish(&self.raw(t))
    }
}

fn b(r: &Raw) -> Box<S> {
    Box::new(finish(r))
}

/// Left-associate un-parenthesised chains, flatten right-nested lets.
fn finish(r: &Raw) -> S {
    match r {
        Raw::Leaf(s) => s.clone(),
        Raw::Group(inner) => S::Paren(b(inner)),
        Raw::Neg(x) => S::Neg(b(x)),
        Raw::Lam(n, im, a, body) => S::Lam { name: n.clone(), implicit: *im, ann: a.as_ref().map(|a| b(a)), body: b(body) },
        Raw::Pi(n, im, d, c) => S::Pi { name: n.clone(), implicit: *im, dom: b(d), cod: b(c) },
        Raw::If(c, t, e) => S::If(b(c), b(t), b(e)),
        Raw::App(f, rest) => {
            // f a1 a2 ... : `rest` is right-nested while it is an un-parenthesised application.
            let mut acc = finish(f);
            let mut cur: &Raw = rest;
            loop {
                match cur {
                    Raw::App(x, more) => {
                        acc = S::App(Box::new(acc), b(x));
                        cur = more;
                    }
                    other => {
                        acc = S::App(Box::new(acc), b(other));
                        break;
                    }
                }
            }
            acc
        }
        Raw::Bin(op @ (Op::Mul | Op::Div), l, rest) => chain(*op, l, rest, |o| matches!(o, Op::Mul | Op::Div)),
        Raw::Bin(op @ (Op::Add | Op::Sub), l, rest) => chain(*op, l, rest, |o| matches!(o, Op::Add | Op::Sub)),
        Raw::Bin(op, l, r2) => S::Bin(*op, b(l), b(r2)),
        Raw::Let(n, a, d, body) => {
            let mut defs = vec![Def { name: n.clone(), ann: a.as_ref().map(|a| finish(a)), def: finish(d) }];
            let mut cur: &Raw = body;
            while let Raw::Let(n2, a2, d2, b2) = cur {
                defs.push(Def { name: n2.clone(), ann: a2.as_ref().map(|a| finish(a)), def: finish(d2) });
                cur = b2;
            }
            S::Let { defs, body: b(cur) }
        }
    }
}

fn chain(op: Op, l: &Raw, rest: &Raw, same: fn(Op) -> bool) -> S {
    let mut acc = finish(l);
    let mut op = op;
    let mut cur: &Raw = rest;
    loop {
        match cur {
            Raw::Bin(o2, x, more) if same(*o2) => {
                acc = S::Bin(op, Box::new(acc), b(x));
                op = *o2;
                cur = more;
            }
            other => {
                acc = S::Bin(op, Box::new(acc), b(other));
                break;
            }
        }
    }
    acc
}

/// Convenience: parse a token list; returns (derivation count, S of the first derivation).
pub fn parse_tokens(g: &Grammar, toks: &[Tok]) -> (u8, Option<S>) {
    let kinds: Vec<K> = toks.iter().map(Tok::kind).collect();
    let mut chart = Chart::new(g, kinds);
    let c = chart.sentence_count();
    if c == 0 {
        return (0, None);
    }
    let n = toks.len();
    let tree = chart.derive(g.start, 0, n).expect("counted derivation exists");
    (c, Some(ToS { g, toks }.to_s(&tree)))
}
