//! R-subst: capture-avoiding substitution on *named* terms with a global fresh-name supply, and
//! the two conversions named <-> de Bruijn parameterised by a context of names.

use crate::dterm::{D, Op};
use num_bigint::BigInt;
use std::collections::BTreeSet;

pub type Name = u32;

#[derive(Clone, PartialEq, Eq, Debug)]
pub enum N {
    Type,
    Int,
    Bool,
    True,
    False,
    Lit(BigInt),
    Var(Name),
    Lam(Name, bool, Box<N>, Box<N>),
    Pi(Name, bool, Box<N>, Box<N>),
    App(Box<N>, Box<N>),
    Let(Vec<(Name, N, N)>, Box<N>),
    Neg(Box<N>),
    Bin(Op, Box<N>, Box<N>),
    If(Box<N>, Box<N>, Box<N>),
}

pub struct Fresh(pub Name);

impl Fresh {
    pub fn next(&mut self) -> Name {
        self.0 += 1;
        self.0
    }
}

/// de Bruijn -> named. `ctx` names the free indices (innermost last). Returns None if an index
/// points outside the context (the caller chose the context too small) or the term has a hole.
pub fn to_named(d: &D, ctx: &mut Vec<Name>, fresh: &mut Fresh) -> Option<N> {
    Some(match d {
        D::Type => N::Type,
        D::Int => N::Int,
        D::Bool => N::Bool,
        D::True => N::True,
        D::False => N::False,
        D::Lit(n) => N::Lit(n.clone()),
        D::Hole => return None,
        D::Var(i) => {
            if *i >= ctx.len() {
                return None;
            }
            N::Var(ctx[ctx.len() - 1 - i])
        }
        D::Lam(im, a, b) => {
            let a = to_named(a, ctx, fresh)?;
            let x = fresh.next();
            ctx.push(x);
            let b = to_named(b, ctx, fresh);
            ctx.pop();
            N::Lam(x, *im, Box::new(a), Box::new(b?))
        }
        D::Pi(im, a, b) => {
            let a = to_named(a, ctx, fresh)?;
            let x = fresh.next();
            ctx.push(x);
            let b = to_named(b, ctx, fresh);
            ctx.pop();
            N::Pi(x, *im, Box::new(a), Box::new(b?))
        }
        D::App(a, b) => N::App(Box::new(to_named(a, ctx, fresh)?), Box::new(to_named(b, ctx, fresh)?)),
        D::Bin(op, a, b) => N::Bin(*op, Box::new(to_named(a, ctx, fresh)?), Box::new(to_named(b, ctx, fresh)?)),
        D::Neg(a) => N::Neg(Box::new(to_named(a, ctx, fresh)?)),
        D::If(a, b, c) => N::If(
            Box::new(to_named(a, ctx, fresh)?),
            Box::new(to_named(b, ctx, fresh)?),
            Box::new(to_named(c, ctx, fresh)?),
        ),
        D::Let(defs, body) => {
            // All definitions of a group scope over every annotation, definition and the body.
            let names: Vec<Name> = defs.iter().map(|_| fresh.next()).collect();
            let base = ctx.len();
            ctx.extend(names.iter().copied());
            let mut out = vec![];
            let mut ok = true;
            for (k, (a, x)) in defs.iter().enumerate() {
                match (to_named(a, ctx, fresh), to_named(x, ctx, fresh)) {
                    (Some(a), Some(x)) => out.push((names[k], a, x)),
                    _ => {
                        ok = false;
                        break;
                    }
                }
            }
            let body = if ok { to_named(body, ctx, fresh) } else { None };
            ctx.truncate(base);
            N::Let(out, Box::new(body?))
        }
    })
}

/// named -> de Bruijn in context `ctx` (innermost last). None if a name is unbound.
pub fn from_named(n: &N, ctx: &mut Vec<Name>) -> Option<D> {
    Some(match n {
        N::Type => D::Type,
        N::Int => D::Int,
        N::Bool => D::Bool,
        N::True => D::True,
        N::False => D::False,
        N::Lit(v) => D::Lit(v.clone()),
        N::Var(x) => {
            let p = ctx.iter().rposition(|y| y == x)?;
            D::Var(ctx.len() - 1 - p)
        }
        N::Lam(x, im, a, b) => {
            let a = from_named(a, ctx)?;
            ctx.push(*x);
            let b = from_named(b, ctx);
            ctx.pop();
            D::Lam(*im, Box::new(a), Box::new(b?))
        }
        N::Pi(x, im, a, b) => {
            let a = from_named(a, ctx)?;
            ctx.push(*x);
            let b = from_named(b, ctx);
            ctx.pop();
            D::Pi(*im, Box::new(a), Box::new(b?))
        }
        N::App(a, b) => D::App(Box::new(from_named(a, ctx)?), Box::new(from_named(b, ctx)?)),
        N::Bin(op, a, b) => D::Bin(*op, Box::new(from_named(a, ctx)?), Box::new(from_named(b, ctx)?)),
        N::Neg(a) => D::Neg(Box::new(from_named(a, ctx)?)),
        N::If(a, b, c) => D::If(
            Box::new(from_named(a, ctx)?),
            Box::new(from_named(b, ctx)?),
            Box::new(from_named(c, ctx)?),
        ),
        N::Let(defs, body) => {
            let base = ctx.len();
            ctx.extend(defs.iter().map(|(x, _, _)| *x));
            let mut out = vec![];
            let mut ok = true;
            for (_, a, x) in defs {
                match (from_named(a, ctx), from_named(x, ctx)) {
                    (Some(a), Some(x)) => out.push((a, x)),
                    _ => {
                        ok = false;
                        break;
                    }
                }
            }
            let body = if ok { from_named(body, ctx) } else { None };
            ctx.truncate(base);
            D::Let(out, Box::new(body?))
        }
    })
}

pub fn free_names(n: &N, bound: &mut Vec<Name>, out: &mut BTreeSet<Name>) {
    match n {
        N::Var(x) => {
            if !bound.contains(x) {
                out.insert(*x);
            }
        }
        N::Lam(x, _, a, b) | N::Pi(x, _, a, b) => {
            free_names(a, bound, out);
            bound.push(*x);
            free_names(b, bound, out);
            bound.pop();
        }
        N::App(a, b) | N::Bin(_, a, b) => {
            free_names(a, bound, out);
            free_names(b, bound, out);
        }
        N::Neg(a) => free_names(a, bound, out),
        N::If(a, b, c) => {
            free_names(a, bound, out);
            free_names(b, bound, out);
            free_names(c, bound, out);
        }
        N::Let(defs, body) => {
            let base = bound.len();
            bound.extend(defs.iter().map(|(x, _, _)| *x));
            for (_, a, x) in defs {
                free_names(a, bound, out);
                free_names(x, bound, out);
            }
            free_names(body, bound, out);
            bound.truncate(base);
        }
        _ => {}
    }
}

/// Rename all binders of `n` to fresh names (so that inserting several copies keeps binder names
/// globally unique — the Barendregt convention under which plain replacement avoids capture).
pub fn refresh(n: &N, fresh: &mut Fresh, map: &mut Vec<(Name, Name)>) -> N {
    let look = |x: Name, map: &Vec<(Name, Name)>| map.iter().rev().find(|(a, _)| *a == x).map_or(x, |(_, b)| *b);
    match n {
        N::Var(x) => N::Var(look(*x, map)),
        N::Lam(x, im, a, b) => {
            let a = refresh(a, fresh, map);
            let y = fresh.next();
            map.push((*x, y));
            let b = refresh(b, fresh, map);
            map.pop();
            N::Lam(y, *im, Box::new(a), Box::new(b))
        }
        N::Pi(x, im, a, b) => {
            let a = refresh(a, fresh, map);
            let y = fresh.next();
            map.push((*x, y));
            let b = refresh(b, fresh, map);
            map.pop();
            N::Pi(y, *im, Box::new(a), Box::new(b))
        }
        N::App(a, b) => N::App(Box::new(refresh(a, fresh, map)), Box::new(refresh(b, fresh, map))),
        N::Bin(op, a, b) => N::Bin(*op, Box::new(refresh(a, fresh, map)), Box::new(refresh(b, fresh, map))),
        N::Neg(a) => N::Neg(Box::new(refresh(a, fresh, map))),
        N::If(a, b, c) => N::If(
            Box::new(refresh(a, fresh, map)),
            Box::new(refresh(b, fresh, map)),
            Box::new(refresh(c, fresh, map)),
        ),
        N::Let(defs, body) => {
            let base = map.len();
            let news: Vec<Name> = defs.iter().map(|_| fresh.next()).collect();
            for ((x, _, _), y) in defs.iter().zip(&news) {
                map.push((*x, *y));
            }
            let out = defs
                .iter()
                .zip(&news)
                .map(|((_, a, d), y)| (*y, refresh(a, fresh, map), refresh(d, fresh, map)))
                .collect();
            let body = refresh(body, fresh, map);
            map.truncate(base);
            N::Let(out, Box::new(body))
        }
        other => other.clone(),
    }
}

/// Capture-avoiding substitution n[x := u]. Every inserted copy of `u` gets fresh binder names,
/// and `u`'s free names are context names, which are never used as binder names, so no binder of
/// `n` can capture them.
pub fn subst(n: &N, x: Name, u: &N, fresh: &mut Fresh) -> N {
    let s = |m: &N, fresh: &mut Fresh| Box::new(subst(m, x, u, fresh));
    match n {
        N::Var(y) => {
            if *y == x {
                refresh(u, fresh, &mut vec![])
            } else {
                n.clone()
            }
        }
        N::Lam(y, im, a, b) => {
            assert!(*y != x);
            N::Lam(*y, *im, s(a, fresh), s(b, fresh))
        }
        N::Pi(y, im, a, b) => {
            assert!(*y != x);
            N::Pi(*y, *im, s(a, fresh), s(b, fresh))
        }
        N::App(a, b) => N::App(s(a, fresh), s(b, fresh)),
        N::Bin(op, a, b) => N::Bin(*op, s(a, fresh), s(b, fresh)),
        N::Neg(a) => N::Neg(s(a, fresh)),
        N::If(a, b, c) => N::If(s(a, fresh), s(b, fresh), s(c, fresh)),
        N::Let(defs, body) => N::Let(
            defs.iter().map(|(y, a, d)| (*y, subst(a, x, u, fresh), subst(d, x, u, fresh))).collect(),
            s(body, fresh),
        ),
        other => other.clone(),
    }
}
