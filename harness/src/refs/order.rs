//! R-order: the definition-order rule, written from its description in the parser ("all the free
//! variables in a definition will stand for values by the time the definition is evaluated").
//!
//! The definitions of a group are evaluated in sequence. A definition that is a syntactic value
//! needs nothing. For every other definition `s`, everything it can reach must be available when
//! it is evaluated: following the names that occur free in its right-hand side, a group member that
//! is a syntactic value is followed further (its body may run while `s` is evaluated), and a group
//! member that is not a value must come strictly before `s`.

use crate::sast::{Def, S};
use std::collections::BTreeSet;

pub fn is_value(s: &S) -> bool {
    matches!(s.strip(), S::Type | S::Int | S::Bool | S::True | S::False | S::Lit(_) | S::Lam { .. } | S::Pi { .. })
}

/// Names occurring free in `s` (binders inside `s` are respected).
pub fn free_names(s: &S, bound: &mut Vec<String>, out: &mut BTreeSet<String>) {
    match s {
        S::Var(n) => {
            if !bound.contains(n) {
                out.insert(n.clone());
            }
        }
        S::Lam { name, ann, body, .. } => {
            if let Some(a) = ann {
                free_names(a, bound, out);
            }
            bound.push(name.clone());
            free_names(body, bound, out);
            bound.pop();
        }
        S::Pi { name, dom, cod, .. } => {
            free_names(dom, bound, out);
            match name {
                Some(n) => {
                    bound.push(n.clone());
                    free_names(cod, bound, out);
                    bound.pop();
                }
                None => free_names(cod, bound, out),
            }
        }
        S::App(a, b) | S::Bin(_, a, b) => {
            free_names(a, bound, out);
            free_names(b, bound, out);
        }
        S::Neg(a) | S::Paren(a) => free_names(a, bound, out),
        S::If(a, b, c) => {
            free_names(a, bound, out);
            free_names(b, bound, out);
            free_names(c, bound, out);
        }
        S::Let { defs, body } => {
            let n = bound.len();
            bound.extend(defs.iter().map(|d| d.name.clone()));
            for d in defs {
                if let Some(a) = &d.ann {
                    free_names(a, bound, out);
                }
                free_names(&d.def, bound, out);
            }
            free_names(body, bound, out);
            bound.truncate(n);
        }
        _ => {}
    }
}

fn group_ok(defs: &[Def]) -> bool {
    fn visit(defs: &[Def], start: usize, cur: usize, visited: &mut BTreeSet<usize>) -> bool {
        let mut names = BTreeSet::new();
        free_names(&defs[cur].def, &mut vec![], &mut names);
        for (d, def) in defs.iter().enumerate() {
            if def.name == "_" || !names.contains(&def.name) || !visited.insert(d) {
                continue;
            }
            if is_value(&def.def) {
                if !visit(defs, start, d, visited) {
                    return false;
                }
            } else if d >= start {
                return false;
            }
        }
        true
    }
    (0..defs.len()).all(|i| is_value(&defs[i].def) || visit(defs, i, i, &mut BTreeSet::new()))
}

/// Does every group of `s` (which must be flattened the way the parser merges groups) satisfy the
/// definition-order rule?
pub fn order_ok(s: &S) -> bool {
    match s {
        S::Lam { ann, body, .. } => ann.as_ref().is_none_or(|a| order_ok(a)) && order_ok(body),
        S::Pi { dom, cod, .. } => order_ok(dom) && order_ok(cod),
        S::App(a, b) | S::Bin(_, a, b) => order_ok(a) && order_ok(b),
        S::Neg(a) | S::Paren(a) => order_ok(a),
        S::If(a, b, c) => order_ok(a) && order_ok(b) && order_ok(c),
        S::Let { defs, body } => group_ok(defs) && defs.iter().all(|d| d.ann.as_ref().is_none_or(order_ok) && order_ok(&d.def)) && order_ok(body),
        _ => true,
    }
}
