//! The harness's own token type (28 kinds, mirroring `%token` in grammar.y) and conversions
//! from / to gram's `token::Token`.

use crate::error::SourceRange;
use crate::token::{TerminatorType, Token, Variant};
use num_bigint::BigInt;

#[derive(Clone, Copy, PartialEq, Eq, Debug, PartialOrd, Ord, Hash)]
pub enum K {
    Asterisk,
    Boolean,
    Colon,
    DoubleEquals,
    Else,
    Equals,
    False,
    GreaterThan,
    GreaterThanOrEqual,
    Identifier,
    If,
    Integer,
    IntegerLiteral,
    LeftCurly,
    LeftParen,
    LessThan,
    LessThanOrEqual,
    Minus,
    Plus,
    RightCurly,
    RightParen,
    Slash,
    Terminator,
    Then,
    ThickArrow,
    ThinArrow,
    True,
    Type,
}

pub const ALL_KINDS: [K; 28] = [
    K::Asterisk, K::Boolean, K::Colon, K::DoubleEquals, K::Else, K::Equals, K::False,
    K::GreaterThan, K::GreaterThanOrEqual, K::Identifier, K::If, K::Integer, K::IntegerLiteral,
    K::LeftCurly, K::LeftParen, K::LessThan, K::LessThanOrEqual, K::Minus, K::Plus, K::RightCurly,
    K::RightParen, K::Slash, K::Terminator, K::Then, K::ThickArrow, K::ThinArrow, K::True, K::Type,
];

impl K {
    /// Name used in grammar.y's `%token` list.
    pub fn bison_name(self) -> &'static str {
        match self {
            K::Asterisk => "ASTERISK",
            K::Boolean => "BOOLEAN",
            K::Colon => "COLON",
            K::DoubleEquals => "DOUBLE_EQUALS",
            K::Else => "ELSE",
            K::Equals => "EQUALS",
            K::False => "FALSE",
            K::GreaterThan => "GREATER_THAN",
            K::GreaterThanOrEqual => "GREATER_THAN_OR_EQUAL",
            K::Identifier => "IDENTIFIER",
            K::If => "IF",
            K::Integer => "INTEGER",
            K::IntegerLiteral => "INTEGER_LITERAL",
            K::LeftCurly => "LEFT_CURLY",
            K::LeftParen => "LEFT_PAREN",
            K::LessThan => "LESS_THAN",
            K::LessThanOrEqual => "LESS_THAN_OR_EQUAL",
            K::Minus => "MINUS",
            K::Plus => "PLUS",
            K::RightCurly => "RIGHT_CURLY",
            K::RightParen => "RIGHT_PAREN",
            K::Slash => "SLASH",
            K::Terminator => "TERMINATOR",
            K::Then => "THEN",
            K::ThickArrow => "THICK_ARROW",
            K::ThinArrow => "THIN_ARROW",
            K::True => "TRUE",
            K::Type => "TYPE",
        }
    }

    /// Fixed spelling (None for identifiers, literals and terminators).
    pub fn spelling(self) -> Option<&'static str> {
        Some(match self {
            K::Asterisk => "*",
            K::Boolean => "bool",
            K::Colon => ":",
            K::DoubleEquals => "==",
            K::Else => "else",
            K::Equals => "=",
            K::False => "false",
            K::GreaterThan => ">",
            K::GreaterThanOrEqual => ">=",
            K::If => "if",
            K::Integer => "int",
            K::LeftCurly => "{",
            K::LeftParen => "(",
            K::LessThan => "<",
            K::LessThanOrEqual => "<=",
            K::Minus => "-",
            K::Plus => "+",
            K::RightCurly => "}",
            K::RightParen => ")",
            K::Slash => "/",
            K::Then => "then",
            K::ThickArrow => "=>",
            K::ThinArrow => "->",
            K::True => "true",
            K::Type => "type",
            K::Identifier | K::IntegerLiteral | K::Terminator => return None,
        })
    }
}

pub const KEYWORDS: [&str; 8] = ["bool", "else", "false", "if", "int", "then", "true", "type"];

/// A token of the harness: kind plus payload.
#[derive(Clone, PartialEq, Eq, Debug)]
pub enum Tok {
    Simple(K),
    Ident(String),
    Lit(BigInt),
    Semi,
    LineBreak,
}

impl Tok {
    pub fn kind(&self) -> K {
        match self {
            Tok::Simple(k) => *k,
            Tok::Ident(_) => K::Identifier,
            Tok::Lit(_) => K::IntegerLiteral,
            Tok::Semi | Tok::LineBreak => K::Terminator,
        }
    }

    /// Spelling in the plain layout (a line-break terminator is spelled `;` there).
    pub fn plain(&self) -> String {
        match self {
            Tok::Simple(k) => k.spelling().unwrap().to_owned(),
            Tok::Ident(s) => s.clone(),
            Tok::Lit(n) => n.to_string(),
            Tok::Semi | Tok::LineBreak => ";".to_owned(),
        }
    }
}

pub fn kind_of(v: &Variant) -> K {
    match v {
        Variant::Asterisk => K::Asterisk,
        Variant::Boolean => K::Boolean,
        Variant::Colon => K::Colon,
        Variant::DoubleEquals => K::DoubleEquals,
        Variant::Else => K::Else,
        Variant::Equals => K::Equals,
        Variant::False => K::False,
        Variant::GreaterThan => K::GreaterThan,
        Variant::GreaterThanOrEqualTo => K::GreaterThanOrEqual,
        Variant::Identifier(_) => K::Identifier,
        Variant::If => K::If,
        Variant::Integer => K::Integer,
        Variant::IntegerLiteral(_) => K::IntegerLiteral,
        Variant::LeftCurly => K::LeftCurly,
        Variant::LeftParen => K::LeftParen,
        Variant::LessThan => K::LessThan,
        Variant::LessThanOrEqualTo => K::LessThanOrEqual,
        Variant::Minus => K::Minus,
        Variant::Plus => K::Plus,
        Variant::RightCurly => K::RightCurly,
        Variant::RightParen => K::RightParen,
        Variant::Slash => K::Slash,
        Variant::Terminator(_) => K::Terminator,
        Variant::Then => K::Then,
        Variant::ThickArrow => K::ThickArrow,
        Variant::ThinArrow => K::ThinArrow,
        Variant::True => K::True,
        Variant::Type => K::Type,
    }
}

pub fn from_gram(t: &Token) -> Tok {
    match &t.variant {
        Variant::Identifier(s) => Tok::Ident((*s).to_owned()),
        Variant::IntegerLiteral(n) => Tok::Lit(n.clone()),
        Variant::Terminator(TerminatorType::LineBreak) => Tok::LineBreak,
        Variant::Terminator(TerminatorType::Semicolon) => Tok::Semi,
        v => Tok::Simple(kind_of(v)),
    }
}

fn simple_variant<'a>(k: K) -> Variant<'a> {
    match k {
        K::Asterisk => Variant::Asterisk,
        K::Boolean => Variant::Boolean,
        K::Colon => Variant::Colon,
        K::DoubleEquals => Variant::DoubleEquals,
        K::Else => Variant::Else,
        K::Equals => Variant::Equals,
        K::False => Variant::False,
        K::GreaterThan => Variant::GreaterThan,
        K::GreaterThanOrEqual => Variant::GreaterThanOrEqualTo,
        K::If => Variant::If,
        K::Integer => Variant::Integer,
        K::LeftCurly => Variant::LeftCurly,
        K::LeftParen => Variant::LeftParen,
        K::LessThan => Variant::LessThan,
        K::LessThanOrEqual => Variant::LessThanOrEqualTo,
        K::Minus => Variant::Minus,
        K::Plus => Variant::Plus,
        K::RightCurly => Variant::RightCurly,
        K::RightParen => Variant::RightParen,
        K::Slash => Variant::Slash,
        K::Then => Variant::Then,
        K::ThickArrow => Variant::ThickArrow,
        K::ThinArrow => Variant::ThinArrow,
        K::True => Variant::True,
        K::Type => Variant::Type,
        K::Identifier | K::IntegerLiteral | K::Terminator => unreachable!(),
    }
}

/// Render tokens in the plain layout (one space between tokens, `;` for every terminator) and
/// return the text together with each token's byte range in it.
pub fn render_plain(toks: &[Tok]) -> (String, Vec<(usize, usize)>) {
    let mut text = String::new();
    let mut ranges = vec![];
    for (i, t) in toks.iter().enumerate() {
        if i > 0 {
            text.push(' ');
        }
        let start = text.len();
        text.push_str(&t.plain());
        ranges.push((start, text.len()));
    }
    (text, ranges)
}

/// Build gram tokens over `text` (identifier payloads borrow from `text`).
pub fn to_gram<'a>(text: &'a str, toks: &[Tok], ranges: &[(usize, usize)]) -> Vec<Token<'a>> {
    toks.iter()
        .zip(ranges)
        .map(|(t, (s, e))| Token {
            source_range: SourceRange { start: *s, end: *e },
            variant: match t {
                Tok::Simple(k) => simple_variant(*k),
                Tok::Ident(_) => Variant::Identifier(&text[*s..*e]),
                Tok::Lit(n) => Variant::IntegerLiteral(n.clone()),
                Tok::Semi => Variant::Terminator(TerminatorType::Semicolon),
                Tok::LineBreak => Variant::Terminator(TerminatorType::LineBreak),
            },
        })
        .collect()
}
