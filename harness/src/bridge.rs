//! Comparison of gram's parser output with a surface tree `S`: constructor shape, binder names,
//! implicit flags, literals, operand and definition order, hole positions, and — through a stack
//! of binder nodes — that every de Bruijn index points at the binder R-scope expects.

use crate::sast::{Op, PLACEHOLDER, S};
use crate::term::{Term, Variant};
use std::cell::RefCell;
use std::rc::Rc;

#[derive(Clone, Debug)]
pub struct Binder {
    pub id: usize,
    /// None for `_` (binds nothing) and for the anonymous parameter of `A -> B`.
    pub name: Option<String>,
}

pub struct Cmp {
    pub stack: Vec<Binder>,
    next_id: usize,
    /// Cells of all holes met, to check that they are pairwise distinct.
    pub holes: Vec<*const RefCell<Option<Term<'static>>>>,
    pub max_scope: usize,
    pub var_occurrences: usize,
    pub sibling_reuse: bool,
    seen_names: Vec<String>,
}

fn vname(v: &Variant) -> &'static str {
    match v {
        Variant::Unifier(..) => "hole",
        Variant::Type => "type",
        Variant::Variable(..) => "variable",
        Variant::Lambda(..) => "lambda",
        Variant::Pi(..) => "pi",
        Variant::Application(..) => "application",
        Variant::Let(..) => "let",
        Variant::Integer => "int",
        Variant::IntegerLiteral(_) => "literal",
        Variant::Negation(_) => "negation",
        Variant::Sum(..) => "sum",
        Variant::Difference(..) => "difference",
        Variant::Product(..) => "product",
        Variant::Quotient(..) => "quotient",
        Variant::LessThan(..) => "less-than",
        Variant::LessThanOrEqualTo(..) => "less-than-or-equal",
        Variant::EqualTo(..) => "equal-to",
        Variant::GreaterThan(..) => "greater-than",
        Variant::GreaterThanOrEqualTo(..) => "greater-than-or-equal",
        Variant::Boolean => "bool",
        Variant::True => "true",
        Variant::False => "false",
        Variant::If(..) => "if",
    }
}

fn sname(s: &S) -> String {
    match s {
        S::Type => "type".into(),
        S::Int => "int".into(),
        S::Bool => "bool".into(),
        S::True => "true".into(),
        S::False => "false".into(),
        S::Lit(_) => "literal".into(),
        S::Var(n) if n == PLACEHOLDER => "hole".into(),
        S::Var(_) => "variable".into(),
        S::Lam { .. } => "lambda".into(),
        S::Pi { .. } => "pi".into(),
        S::App(..) => "application".into(),
        S::Let { .. } => "let".into(),
        S::Neg(_) => "negation".into(),
        S::Bin(op, ..) => format!("operator {}", op.sym()),
        S::If(..) => "if".into(),
        S::Paren(_) => "parenthesised".into(),
    }
}

impl Cmp {
    /// `context`: names of the initial context passed to `parse` (outermost first).
    pub fn new(context: &[&str]) -> Self {
        let mut c = Cmp { stack: vec![], next_id: 0, holes: vec![], max_scope: 0, var_occurrences: 0, sibling_reuse: false, seen_names: vec![] };
        for n in context {
            c.push(Some((*n).to_owned()));
        }
        c
    }

    fn push(&mut self, name: Option<String>) {
        if let Some(n) = &name {
            if self.seen_names.contains(n) {
                self.sibling_reuse = true;
            } else {
                self.seen_names.push(n.clone());
            }
        }
        self.stack.push(Binder { id: self.next_id, name });
        self.next_id += 1;
    }

    fn hole(&mut self, term: &Term, want_shift: usize, what: &str) -> Result<(), String> {
        match &term.variant {
            Variant::Unifier(cell, shift) => {
                if cell.borrow().is_some() {
                    return Err(format!("{what}: the hole is already resolved in the parser's output"));
                }
                if *shift != want_shift {
                    return Err(format!("{what}: hole has shift {shift}, expected {want_shift}"));
                }
                let p = Rc::as_ptr(cell).cast::<RefCell<Option<Term<'static>>>>();
                if self.holes.contains(&p) {
                    return Err(format!("{what}: the same hole cell is used at two places"));
                }
                self.holes.push(p);
                Ok(())
            }
            v => Err(format!("{what}: expected a hole, found {}", vname(v))),
        }
    }

    /// Compare `term` with `s` (which must be flattened). Errors describe the first difference.
    pub fn cmp(&mut self, term: &Term, s: &S) -> Result<(), String> {
        let s = s.strip();
        self.max_scope = self.max_scope.max(self.stack.len());
        let mismatch = |t: &Term, s: &S| Err(format!("expected {} but the parser built {}", sname(s), vname(&t.variant)));
        match (s, &term.variant) {
            (S::Type, Variant::Type)
            | (S::Int, Variant::Integer)
            | (S::Bool, Variant::Boolean)
            | (S::True, Variant::True)
            | (S::False, Variant::False) => Ok(()),
            (S::Lit(a), Variant::IntegerLiteral(b)) => {
                if a == b { Ok(()) } else { Err(format!("literal {b} where {a} was written")) }
            }
            (S::Var(n), _) if n == PLACEHOLDER => self.hole(term, 0, "`_` used as an expression"),
            (S::Var(n), Variant::Variable(name, index)) => {
                self.var_occurrences += 1;
                if name != n {
                    return Err(format!("variable is named {name} in the output, {n} in the source"));
                }
                if *name == PLACEHOLDER {
                    return Err("a variable named `_` appears in the output".into());
                }
                let Some(expected) = self.stack.iter().rposition(|b| b.name.as_deref() == Some(n.as_str())) else {
                    return Err(format!("variable {n} is not in scope according to the scoping rules, yet the parser resolved it"));
                };
                if *index >= self.stack.len() {
                    return Err(format!("variable {n} has index {index}, but only {} binders are in scope", self.stack.len()));
                }
                let got = self.stack.len() - 1 - index;
                if self.stack[got].id != self.stack[expected].id {
                    return Err(format!(
                        "variable {n} (index {index}) refers to binder #{} ({:?}) instead of its own binder #{}",
                        got, self.stack[got].name, expected
                    ));
                }
                Ok(())
            }
            (S::Lam { name, implicit, ann, body }, Variant::Lambda(n2, im2, dom, b2)) => {
                if n2 != name || im2 != implicit {
                    return Err(format!("lambda binder {n2} (implicit={im2}) where {name} (implicit={implicit}) was written"));
                }
                match ann {
                    Some(a) => self.cmp(dom, a)?,
                    None => self.hole(dom, 0, "omitted parameter annotation")?,
                }
                self.push(if name == PLACEHOLDER { None } else { Some(name.clone()) });
                let r = self.cmp(b2, body);
                self.stack.pop();
                r
            }
            (S::Pi { name, implicit, dom, cod }, Variant::Pi(n2, im2, d2, c2)) => {
                let want = name.as_deref().unwrap_or(PLACEHOLDER);
                if *n2 != want || im2 != implicit {
                    return Err(format!("pi binder {n2} (implicit={im2}) where {want} (implicit={implicit}) was written"));
                }
                self.cmp(d2, dom)?;
                self.push(match name {
                    Some(n) if n != PLACEHOLDER => Some(n.clone()),
                    _ => None,
                });
                let r = self.cmp(c2, cod);
                self.stack.pop();
                r
            }
            (S::App(f, a), Variant::Application(f2, a2)) => {
                self.cmp(f2, f)?;
                self.cmp(a2, a)
            }
            (S::Neg(a), Variant::Negation(a2)) => self.cmp(a2, a),
            (S::Bin(op, a, b), v) => {
                let (x, y) = match (op, v) {
                    (Op::Add, Variant::Sum(x, y))
                    | (Op::Sub, Variant::Difference(x, y))
                    | (Op::Mul, Variant::Product(x, y))
                    | (Op::Div, Variant::Quotient(x, y))
                    | (Op::Lt, Variant::LessThan(x, y))
                    | (Op::Le, Variant::LessThanOrEqualTo(x, y))
                    | (Op::Eq, Variant::EqualTo(x, y))
                    | (Op::Gt, Variant::GreaterThan(x, y))
                    | (Op::Ge, Variant::GreaterThanOrEqualTo(x, y)) => (x, y),
                    _ => return mismatch(term, s),
                };
                self.cmp(x, a)?;
                self.cmp(y, b)
            }
            (S::If(c, t, e), Variant::If(c2, t2, e2)) => {
                self.cmp(c2, c)?;
                self.cmp(t2, t)?;
                self.cmp(e2, e)
            }
            (S::Let { defs, body }, Variant::Let(defs2, body2)) => {
                if defs.len() != defs2.len() {
                    return Err(format!("group has {} definitions in the output, {} in the source", defs2.len(), defs.len()));
                }
                let n = defs.len();
                for d in defs {
                    self.push(if d.name == PLACEHOLDER { None } else { Some(d.name.clone()) });
                }
                let mut r = Ok(());
                for (i, (d, (n2, a2, x2))) in defs.iter().zip(defs2).enumerate() {
                    if *n2 != d.name {
                        r = Err(format!("definition {i} is named {n2} in the output, {} in the source", d.name));
                        break;
                    }
                    r = match &d.ann {
                        Some(a) => self.cmp(a2, a),
                        None => self.hole(a2, n - i, "omitted definition annotation"),
                    };
                    if r.is_err() {
                        break;
                    }
                    r = self.cmp(x2, &d.def);
                    if r.is_err() {
                        break;
                    }
                }
                if r.is_ok() {
                    r = self.cmp(body2, body);
                }
                for _ in 0..n {
                    self.stack.pop();
                }
                r
            }
            _ => mismatch(term, s),
        }
    }
}

/// Structural equality of two gram terms modulo source ranges (holes match holes; resolved holes
/// are followed with their shift applied by the harness's own `D` conversion).
pub fn same_structure(a: &Term, b: &Term) -> bool {
    crate::dterm::D::from_gram(a) == crate::dterm::D::from_gram(b) && same_names(a, b)
}

/// Binder and variable names equal (used for layout / round-trip comparisons).
pub fn same_names(a: &Term, b: &Term) -> bool {
    let mut na = vec![];
    let mut nb = vec![];
    collect_names(a, &mut na);
    collect_names(b, &mut nb);
    na == nb
}

pub fn collect_names(t: &Term, out: &mut Vec<String>) {
    match &t.variant {
        Variant::Unifier(cell, _) => {
            let c = cell.borrow().clone();
            if let Some(inner) = c {
                collect_names(&inner, out);
            }
        }
        Variant::Variable(n, _) => out.push((*n).to_owned()),
        Variant::Lambda(n, _, a, b) | Variant::Pi(n, _, a, b) => {
            out.push(format!("bind:{n}"));
            collect_names(a, out);
            collect_names(b, out);
        }
        Variant::Application(a, b)
        | Variant::Sum(a, b)
        | Variant::Difference(a, b)
        | Variant::Product(a, b)
        | Variant::Quotient(a, b)
        | Variant::LessThan(a, b)
        | Variant::LessThanOrEqualTo(a, b)
        | Variant::EqualTo(a, b)
        | Variant::GreaterThan(a, b)
        | Variant::GreaterThanOrEqualTo(a, b) => {
            collect_names(a, out);
            collect_names(b, out);
        }
        Variant::Negation(a) => collect_names(a, out),
        Variant::If(a, b, c) => {
            collect_names(a, out);
            collect_names(b, out);
            collect_names(c, out);
        }
        Variant::Let(defs, body) => {
            for (n, a, d) in defs {
                out.push(format!("def:{n}"));
                collect_names(a, out);
                collect_names(d, out);
            }
            collect_names(body, out);
        }
        _ => {}
    }
}

/// Classify the diagnostics of a parse error list.
#[derive(Default, Debug, Clone)]
pub struct ErrKinds {
    pub not_in_scope: Vec<String>,
    pub already_exists: Vec<String>,
    pub order: usize,
    pub syntax: usize,
}

pub fn classify_parse_errors(errors: &[crate::error::Error]) -> ErrKinds {
    let mut k = ErrKinds::default();
    for e in errors {
        let m = &e.message;
        let head = m.split('\n').next().unwrap_or("");
        if let Some(r) = head.strip_prefix("[Error] Variable `") {
            if let Some(n) = r.strip_suffix("` not in scope.") {
                k.not_in_scope.push(n.to_owned());
                continue;
            }
            if let Some(n) = r.strip_suffix("` already exists.") {
                k.already_exists.push(n.to_owned());
                continue;
            }
        }
        if head.contains("which will not be available in time during evaluation") || head.starts_with("[Error] The definition of ") {
            k.order += 1;
            continue;
        }
        k.syntax += 1;
    }
    k
}

/// Equality demanded by C16 between a parsed term and the re-parse of its printed form: same
/// constructors, de Bruijn indices, implicit flags, literals, definition count and order,
/// hole <-> hole, variable names, and binder names except for pi parameters that do not occur in
/// their codomain (whose names the printer is allowed to drop).
pub fn roundtrip_equal(a: &Term, b: &Term) -> Result<(), String> {
    use Variant as V;
    let both = |x: &Rc<Term>, y: &Rc<Term>| roundtrip_equal(x, y);
    match (&a.variant, &b.variant) {
        (V::Unifier(c1, _), V::Unifier(c2, _)) => {
            let (r1, r2) = (c1.borrow().clone(), c2.borrow().clone());
            match (r1, r2) {
                (None, None) => Ok(()),
                (Some(x), Some(y)) => roundtrip_equal(&x, &y),
                _ => Err("a hole is resolved on one side only".into()),
            }
        }
        (V::Unifier(c1, s1), _) if c1.borrow().is_some() => {
            // Follow a resolved hole on the left (elaborated terms): compare what it prints as.
            let inner = c1.borrow().clone().unwrap();
            let shifted = crate::dterm::D::from_gram(&inner).shift_free(0, *s1);
            if shifted == crate::dterm::D::from_gram(b) { Ok(()) } else { Err(format!("resolved hole `{inner}` reads back as `{b}`")) }
        }
        (V::Type, V::Type) | (V::Integer, V::Integer) | (V::Boolean, V::Boolean) | (V::True, V::True) | (V::False, V::False) => Ok(()),
        (V::IntegerLiteral(x), V::IntegerLiteral(y)) => if x == y { Ok(()) } else { Err(format!("literal {x} reads back as {y}")) },
        (V::Variable(n1, i1), V::Variable(n2, i2)) => {
            if n1 == n2 && i1 == i2 { Ok(()) } else { Err(format!("variable {n1}#{i1} reads back as {n2}#{i2}")) }
        }
        (V::Lambda(n1, im1, d1, b1), V::Lambda(n2, im2, d2, b2)) => {
            if n1 != n2 || im1 != im2 {
                return Err(format!("lambda binder {n1} (implicit={im1}) reads back as {n2} (implicit={im2})"));
            }
            both(d1, d2)?;
            both(b1, b2)
        }
        (V::Pi(n1, im1, d1, c1), V::Pi(n2, im2, d2, c2)) => {
            if im1 != im2 {
                return Err(format!("pi implicit={im1} reads back as implicit={im2}"));
            }
            let mut fv = std::collections::BTreeSet::new();
            crate::dterm::D::from_gram(c1).free(0, &mut fv);
            if fv.contains(&0) && n1 != n2 {
                return Err(format!("pi binder {n1} (used in its codomain) reads back as {n2}"));
            }
            both(d1, d2)?;
            both(c1, c2)
        }
        (V::Application(f1, a1), V::Application(f2, a2)) => {
            both(f1, f2)?;
            both(a1, a2)
        }
        (V::Let(ds1, b1), V::Let(ds2, b2)) => {
            if ds1.len() != ds2.len() {
                return Err(format!("group of {} definitions reads back as {}", ds1.len(), ds2.len()));
            }
            for ((n1, a1, x1), (n2, a2, x2)) in ds1.iter().zip(ds2) {
                if n1 != n2 {
                    return Err(format!("definition {n1} reads back as {n2}"));
                }
                both(a1, a2)?;
                both(x1, x2)?;
            }
            both(b1, b2)
        }
        (V::Negation(x), V::Negation(y)) => both(x, y),
        (V::Sum(x1, y1), V::Sum(x2, y2))
        | (V::Difference(x1, y1), V::Difference(x2, y2))
        | (V::Product(x1, y1), V::Product(x2, y2))
        | (V::Quotient(x1, y1), V::Quotient(x2, y2))
        | (V::LessThan(x1, y1), V::LessThan(x2, y2))
        | (V::LessThanOrEqualTo(x1, y1), V::LessThanOrEqualTo(x2, y2))
        | (V::EqualTo(x1, y1), V::EqualTo(x2, y2))
        | (V::GreaterThan(x1, y1), V::GreaterThan(x2, y2))
        | (V::GreaterThanOrEqualTo(x1, y1), V::GreaterThanOrEqualTo(x2, y2)) => {
            both(x1, x2)?;
            both(y1, y2)
        }
        (V::If(c1, t1, e1), V::If(c2, t2, e2)) => {
            both(c1, c2)?;
            both(t1, t2)?;
            both(e1, e2)
        }
        (x, y) => Err(format!("{} reads back as {}", vname(x), vname(y))),
    }
}

pub fn form_name(t: &Term) -> String {
    match &t.variant {
        Variant::Pi(n, im, _, c) => {
            let mut fv = std::collections::BTreeSet::new();
            crate::dterm::D::from_gram(c).free(0, &mut fv);
            format!("pi({}{})", if *im { "implicit," } else { "" }, if fv.contains(&0) { "dependent" } else { "non-dependent" })
        }
        Variant::Lambda(_, im, _, _) => format!("lambda{}", if *im { "(implicit)" } else { "" }),
        v => vname(v).to_owned(),
    }
}

/// (parent position, child form) pairs of a term, for coverage accounting.
pub fn position_pairs(t: &Term, out: &mut Vec<String>) {
    let mut add = |pos: &str, c: &Rc<Term>, out: &mut Vec<String>| {
        out.push(format!("{pos} <- {}", form_name(c)));
        position_pairs(c, out);
    };
    match &t.variant {
        Variant::Lambda(_, im, d, b) => {
            add(if *im { "lambda annotation (implicit)" } else { "lambda annotation" }, d, out);
            add("lambda body", b, out);
        }
        Variant::Pi(..) => {
            let name = form_name(t);
            if let Variant::Pi(_, _, d, c) = &t.variant {
                add(&format!("{name} domain"), d, out);
                add(&format!("{name} codomain"), c, out);
            }
        }
        Variant::Application(f, a) => {
            add("applicand", f, out);
            add("argument", a, out);
        }
        Variant::Let(defs, body) => {
            for (_, a, d) in defs {
                add("let annotation", a, out);
                add("let definition", d, out);
            }
            add("let body", body, out);
        }
        Variant::Negation(a) => add("negation operand", a, out),
        Variant::Sum(a, b)
        | Variant::Difference(a, b)
        | Variant::Product(a, b)
        | Variant::Quotient(a, b)
        | Variant::LessThan(a, b)
        | Variant::LessThanOrEqualTo(a, b)
        | Variant::EqualTo(a, b)
        | Variant::GreaterThan(a, b)
        | Variant::GreaterThanOrEqualTo(a, b) => {
            let n = vname(&t.variant);
            add(&format!("{n} left"), a, out);
            add(&format!("{n} right"), b, out);
        }
        Variant::If(c, a, b) => {
            add("if condition", c, out);
            add("if then", a, out);
            add("if else", b, out);
        }
        _ => {}
    }
}
