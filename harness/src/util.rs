//! Small helpers: hashing, seeds, choice-sequence decoding.

/// FNV-1a 64-bit hash of a byte string (stable across runs and platforms).
pub fn fnv(bytes: &[u8]) -> u64 {
    let mut h: u64 = 0xcbf2_9ce4_8422_2325;
    for b in bytes {
        h ^= u64::from(*b);
        h = h.wrapping_mul(0x0000_0100_0000_01b3);
    }
    h
}

pub fn fnv_str(s: &str) -> u64 {
    fnv(s.as_bytes())
}

/// splitmix64 step, used to derive independent sub-seeds from (seed, part, shard, round).
pub fn mix(mut x: u64) -> u64 {
    x = x.wrapping_add(0x9e37_79b9_7f4a_7c15);
    let mut z = x;
    z = (z ^ (z >> 30)).wrapping_mul(0xbf58_476d_1ce4_e5b9);
    z = (z ^ (z >> 27)).wrapping_mul(0x94d0_49bb_1331_11eb);
    z ^ (z >> 31)
}

pub fn derive_seed(seed: u64, part: &str, shard: u32, round: u32) -> u64 {
    let mut x = mix(seed ^ fnv_str(part));
    x = mix(x ^ u64::from(shard).wrapping_mul(0x1_0000_0001));
    mix(x ^ (u64::from(round) << 17))
}

/// Decoder of a proptest-generated choice sequence. Every random decision of every generator goes
/// through this, so proptest's shrinking of the `Vec<u16>` shrinks the generated structure and a
/// replay file (the sequence) reproduces the case exactly. An exhausted sequence yields 0, and
/// generators are written so that option 0 is always the smallest / terminal alternative.
pub struct Ch<'a> {
    data: &'a [u16],
    pos: usize,
}

impl<'a> Ch<'a> {
    pub fn new(data: &'a [u16]) -> Self {
        Ch { data, pos: 0 }
    }

    pub fn raw(&mut self) -> u16 {
        let v = self.data.get(self.pos).copied().unwrap_or(0);
        self.pos += 1;
        v
    }

    /// Uniform-ish pick in 0..n (monotone in the raw value, so shrinking moves towards 0).
    pub fn pick(&mut self, n: usize) -> usize {
        if n <= 1 {
            // Still consume nothing: a forced choice needs no entropy.
            return 0;
        }
        let c = u64::from(self.raw());
        ((c * n as u64) >> 16) as usize
    }

    /// Weighted pick: returns the index of the chosen weight. Index 0 should be the simplest.
    pub fn weighted(&mut self, weights: &[u32]) -> usize {
        let total: u64 = weights.iter().map(|w| u64::from(*w)).sum();
        if total == 0 {
            return 0;
        }
        let c = u64::from(self.raw());
        let mut x = (c * total) >> 16;
        for (i, w) in weights.iter().enumerate() {
            let w = u64::from(*w);
            if x < w {
                return i;
            }
            x -= w;
        }
        weights.len() - 1
    }

    /// True with probability num/den (false when exhausted).
    pub fn chance(&mut self, num: u32, den: u32) -> bool {
        // High raw values trigger, so that exhaustion / shrinking gives `false`.
        let c = u64::from(self.raw());
        let slot = (c * u64::from(den)) >> 16;
        slot >= u64::from(den - num.min(den))
    }

    pub fn exhausted(&self) -> bool {
        self.pos >= self.data.len()
    }

    pub fn used(&self) -> usize {
        self.pos
    }
}

/// A tiny deterministic PRNG for places where a choice sequence is not needed (e.g. picking which
/// enumerated items get the expensive CLI cross-check). Never used for generating test inputs of
/// proptest parts.
pub struct Lcg(pub u64);

impl Lcg {
    pub fn next(&mut self) -> u64 {
        self.0 = mix(self.0);
        self.0
    }
    pub fn below(&mut self, n: u64) -> u64 {
        if n == 0 { 0 } else { self.next() % n }
    }
}

pub fn truncate(s: &str, max: usize) -> String {
    if s.chars().count() <= max {
        s.to_owned()
    } else {
        let mut t: String = s.chars().take(max).collect();
        t.push_str("…");
        t
    }
}
