//! `S`: the named surface syntax tree (one constructor per production of grammar.y), its token
//! printer with minimal parenthesisation derived from the grammar's nonterminal levels, and the
//! scoping rules of C08 on named terms (R-scope).

pub use crate::dterm::Op;
use crate::tok::{K, Tok};
use num_bigint::BigInt;

#[derive(Clone, PartialEq, Eq, Debug, Hash)]
pub struct Def {
    pub name: String,
    pub ann: Option<S>,
    pub def: S,
}

#[derive(Clone, PartialEq, Eq, Debug, Hash)]
pub enum S {
    Type,
    Int,
    Bool,
    True,
    False,
    Lit(BigInt),
    /// A variable occurrence; the name `_` is a hole expression.
    Var(String),
    Lam { name: String, implicit: bool, ann: Option<Box<S>>, body: Box<S> },
    /// `name: None` is the non-dependent arrow `A -> B` (never implicit).
    Pi { name: Option<String>, implicit: bool, dom: Box<S>, cod: Box<S> },
    App(Box<S>, Box<S>),
    Let { defs: Vec<Def>, body: Box<S> },
    Neg(Box<S>),
    Bin(Op, Box<S>, Box<S>),
    If(Box<S>, Box<S>, Box<S>),
    /// Explicit (possibly redundant) parentheses.
    Paren(Box<S>),
}

pub const PLACEHOLDER: &str = "_";

pub fn var(n: &str) -> S {
    S::Var(n.to_owned())
}
pub fn lit(n: i64) -> S {
    S::Lit(BigInt::from(n))
}
pub fn app(f: S, a: S) -> S {
    S::App(Box::new(f), Box::new(a))
}
pub fn bin(op: Op, a: S, b: S) -> S {
    S::Bin(op, Box::new(a), Box::new(b))
}
pub fn lam(name: &str, ann: Option<S>, body: S) -> S {
    S::Lam { name: name.to_owned(), implicit: false, ann: ann.map(Box::new), body: Box::new(body) }
}
pub fn arrow(a: S, b: S) -> S {
    S::Pi { name: None, implicit: false, dom: Box::new(a), cod: Box::new(b) }
}
pub fn pi(name: &str, a: S, b: S) -> S {
    S::Pi { name: Some(name.to_owned()), implicit: false, dom: Box::new(a), cod: Box::new(b) }
}
pub fn ite(c: S, t: S, e: S) -> S {
    S::If(Box::new(c), Box::new(t), Box::new(e))
}
pub fn let_(defs: Vec<(&str, Option<S>, S)>, body: S) -> S {
    S::Let {
        defs: defs.into_iter().map(|(n, a, d)| Def { name: n.to_owned(), ann: a, def: d }).collect(),
        body: Box::new(body),
    }
}

impl S {
    /// The grammar level at which this form is produced:
    /// atom 0 < small 1 < medium 2 < large 3 < huge 4 < giant 5 < jumbo 6 < term 7.
    pub fn level(&self) -> u8 {
        match self {
            S::Type | S::Int | S::Bool | S::True | S::False | S::Lit(_) | S::Var(_) | S::Paren(_) => 0,
            S::App(..) => 1,
            S::Bin(Op::Mul | Op::Div, ..) => 2,
            S::Neg(_) => 3,
            S::Bin(Op::Add | Op::Sub, ..) => 4,
            S::Bin(..) => 5,
            S::Lam { .. } | S::Pi { .. } | S::If(..) => 6,
            S::Let { .. } => 7,
        }
    }

    pub fn strip(&self) -> &S {
        let mut s = self;
        while let S::Paren(inner) = s {
            s = inner;
        }
        s
    }

    pub fn size(&self) -> usize {
        match self {
            S::Lam { ann, body, .. } => 1 + ann.as_ref().map_or(0, |a| a.size()) + body.size(),
            S::Pi { dom, cod, .. } => 1 + dom.size() + cod.size(),
            S::App(a, b) | S::Bin(_, a, b) => 1 + a.size() + b.size(),
            S::Let { defs, body } => {
                1 + defs.iter().map(|d| d.ann.as_ref().map_or(0, S::size) + d.def.size()).sum::<usize>() + body.size()
            }
            S::Neg(a) | S::Paren(a) => 1 + a.size(),
            S::If(a, b, c) => 1 + a.size() + b.size() + c.size(),
            _ => 1,
        }
    }

    pub fn depth(&self) -> usize {
        match self {
            S::Lam { ann, body, .. } => 1 + ann.as_ref().map_or(0, |a| a.depth()).max(body.depth()),
            S::Pi { dom, cod, .. } => 1 + dom.depth().max(cod.depth()),
            S::App(a, b) | S::Bin(_, a, b) => 1 + a.depth().max(b.depth()),
            S::Let { defs, body } => {
                1 + defs.iter().map(|d| d.ann.as_ref().map_or(0, S::depth).max(d.def.depth())).max().unwrap_or(0).max(body.depth())
            }
            S::Neg(a) | S::Paren(a) => 1 + a.depth(),
            S::If(a, b, c) => 1 + a.depth().max(b.depth()).max(c.depth()),
            _ => 1,
        }
    }

    /// Merge a group whose body is (un-parenthesised) another group into one group, everywhere;
    /// this is what the sentence `x = 1; y = 2; b` denotes.
    pub fn flatten(&self) -> S {
        let f = |x: &S| Box::new(x.flatten());
        match self {
            S::Lam { name, implicit, ann, body } => {
                S::Lam { name: name.clone(), implicit: *implicit, ann: ann.as_ref().map(|a| f(a)), body: f(body) }
            }
            S::Pi { name, implicit, dom, cod } => S::Pi { name: name.clone(), implicit: *implicit, dom: f(dom), cod: f(cod) },
            S::App(a, b) => S::App(f(a), f(b)),
            S::Bin(op, a, b) => S::Bin(*op, f(a), f(b)),
            S::Neg(a) => S::Neg(f(a)),
            S::Paren(a) => S::Paren(f(a)),
            S::If(a, b, c) => S::If(f(a), f(b), f(c)),
            S::Let { defs, body } => {
                let mut all: Vec<Def> = defs
                    .iter()
                    .map(|d| Def { name: d.name.clone(), ann: d.ann.as_ref().map(S::flatten), def: d.def.flatten() })
                    .collect();
                let mut b = body.flatten();
                while let S::Let { defs: inner, body: ib } = b {
                    all.extend(inner);
                    b = *ib;
                }
                S::Let { defs: all, body: Box::new(b) }
            }
            other => other.clone(),
        }
    }

    /// Like `flatten`, and a *parenthesised* group in body position is merged as well
    /// (`x = a; (y = b; c)`), which is what gram's parser does with it: the group the
    /// definition-order rule is about.
    pub fn flatten_merged(&self) -> S {
        let f = |x: &S| Box::new(x.flatten_merged());
        match self {
            S::Lam { name, implicit, ann, body } => {
                S::Lam { name: name.clone(), implicit: *implicit, ann: ann.as_ref().map(|a| f(a)), body: f(body) }
            }
            S::Pi { name, implicit, dom, cod } => S::Pi { name: name.clone(), implicit: *implicit, dom: f(dom), cod: f(cod) },
            S::App(a, b) => S::App(f(a), f(b)),
            S::Bin(op, a, b) => S::Bin(*op, f(a), f(b)),
            S::Neg(a) => S::Neg(f(a)),
            S::Paren(a) => S::Paren(f(a)),
            S::If(a, b, c) => S::If(f(a), f(b), f(c)),
            S::Let { defs, body } => {
                let mut all: Vec<Def> = defs
                    .iter()
                    .map(|d| Def { name: d.name.clone(), ann: d.ann.as_ref().map(S::flatten_merged), def: d.def.flatten_merged() })
                    .collect();
                let mut b = body.flatten_merged();
                while let S::Let { defs: inner, body: ib } = b.strip().clone() {
                    all.extend(inner);
                    b = *ib;
                }
                S::Let { defs: all, body: Box::new(b) }
            }
            other => other.clone(),
        }
    }

    /// Remove all explicit parentheses (the denoted tree).
    pub fn unparen(&self) -> S {
        let f = |x: &S| Box::new(x.unparen());
        match self {
            S::Paren(a) => a.unparen(),
            S::Lam { name, implicit, ann, body } => {
                S::Lam { name: name.clone(), implicit: *implicit, ann: ann.as_ref().map(|a| f(a)), body: f(body) }
            }
            S::Pi { name, implicit, dom, cod } => S::Pi { name: name.clone(), implicit: *implicit, dom: f(dom), cod: f(cod) },
            S::App(a, b) => S::App(f(a), f(b)),
            S::Bin(op, a, b) => S::Bin(*op, f(a), f(b)),
            S::Neg(a) => S::Neg(f(a)),
            S::If(a, b, c) => S::If(f(a), f(b), f(c)),
            S::Let { defs, body } => S::Let {
                defs: defs.iter().map(|d| Def { name: d.name.clone(), ann: d.ann.as_ref().map(S::unparen), def: d.def.unparen() }).collect(),
                body: f(body),
            },
            other => other.clone(),
        }
    }
}

// ---------------------------------------------------------------------------------------------
// Printer: S -> tokens, minimal parentheses by grammar level.
// ---------------------------------------------------------------------------------------------

fn simple(out: &mut Vec<Tok>, k: K) {
    out.push(Tok::Simple(k));
}

/// Emit `s` in a position that accepts forms up to `max` level.
fn emit(s: &S, max: u8, out: &mut Vec<Tok>) {
    if s.level() > max {
        simple(out, K::LeftParen);
        emit_raw(s, out);
        simple(out, K::RightParen);
    } else {
        emit_raw(s, out);
    }
}

fn is_muldiv(s: &S) -> bool {
    matches!(s, S::Bin(Op::Mul | Op::Div, ..))
}
fn is_addsub(s: &S) -> bool {
    matches!(s, S::Bin(Op::Add | Op::Sub, ..))
}

fn op_tok(op: Op) -> K {
    match op {
        Op::Add => K::Plus,
        Op::Sub => K::Minus,
        Op::Mul => K::Asterisk,
        Op::Div => K::Slash,
        Op::Lt => K::LessThan,
        Op::Le => K::LessThanOrEqual,
        Op::Eq => K::DoubleEquals,
        Op::Gt => K::GreaterThan,
        Op::Ge => K::GreaterThanOrEqual,
    }
}

fn emit_muldiv(s: &S, top: bool, out: &mut Vec<Tok>) {
    if let S::Bin(op, l, r) = s {
        if is_muldiv(l) {
            emit_muldiv(l, false, out);
        } else {
            emit(l, 1, out);
        }
        simple(out, op_tok(*op));
        // The last operand of a chain is a `large_term`: it may be a negation.
        if top && matches!(**r, S::Neg(_)) {
            emit_raw(r, out);
        } else {
            emit(r, 1, out);
        }
    }
}

fn emit_raw(s: &S, out: &mut Vec<Tok>) {
    match s {
        S::Type => simple(out, K::Type),
        S::Int => simple(out, K::Integer),
        S::Bool => simple(out, K::Boolean),
        S::True => simple(out, K::True),
        S::False => simple(out, K::False),
        S::Lit(n) => out.push(Tok::Lit(n.clone())),
        S::Var(n) => out.push(Tok::Ident(n.clone())),
        S::Paren(inner) => {
            simple(out, K::LeftParen);
            emit_raw(inner, out);
            simple(out, K::RightParen);
        }
        S::App(f, a) => {
            if matches!(**f, S::App(..)) {
                emit_raw(f, out);
            } else {
                emit(f, 0, out);
            }
            emit(a, 0, out);
        }
        S::Bin(Op::Mul | Op::Div, ..) => emit_muldiv(s, true, out),
        S::Neg(x) => {
            simple(out, K::Minus);
            emit(x, 3, out);
        }
        S::Bin(op @ (Op::Add | Op::Sub), l, r) => {
            if is_addsub(l) {
                emit_raw(l, out);
            } else {
                emit(l, 3, out);
            }
            simple(out, op_tok(*op));
            emit(r, 3, out);
        }
        S::Bin(op, l, r) => {
            emit(l, 4, out);
            simple(out, op_tok(*op));
            emit(r, 4, out);
        }
        S::Lam { name, implicit, ann, body } => {
            match (ann, implicit) {
                (None, false) => out.push(Tok::Ident(name.clone())),
                (None, true) => {
                    simple(out, K::LeftCurly);
                    out.push(Tok::Ident(name.clone()));
                    simple(out, K::RightCurly);
                }
                (Some(a), im) => {
                    simple(out, if *im { K::LeftCurly } else { K::LeftParen });
                    out.push(Tok::Ident(name.clone()));
                    simple(out, K::Colon);
                    emit(a, 6, out);
                    simple(out, if *im { K::RightCurly } else { K::RightParen });
                }
            }
            simple(out, K::ThickArrow);
            emit(body, 7, out);
        }
        S::Pi { name, implicit, dom, cod } => {
            match name {
                Some(n) => {
                    simple(out, if *implicit { K::LeftCurly } else { K::LeftParen });
                    out.push(Tok::Ident(n.clone()));
                    simple(out, K::Colon);
                    emit(dom, 6, out);
                    simple(out, if *implicit { K::RightCurly } else { K::RightParen });
                }
                None => emit(dom, 1, out),
            }
            simple(out, K::ThinArrow);
            emit(cod, 7, out);
        }
        S::If(c, t, e) => {
            simple(out, K::If);
            emit(c, 7, out);
            simple(out, K::Then);
            emit(t, 7, out);
            simple(out, K::Else);
            emit(e, 7, out);
        }
        S::Let { defs, body } => {
            for d in defs {
                out.push(Tok::Ident(d.name.clone()));
                if let Some(a) = &d.ann {
                    simple(out, K::Colon);
                    emit(a, 1, out);
                }
                simple(out, K::Equals);
                emit(&d.def, 7, out);
                out.push(Tok::Semi);
            }
            emit(body, 7, out);
        }
    }
}

pub fn print_tokens(s: &S) -> Vec<Tok> {
    let mut out = vec![];
    emit_raw(s, &mut out);
    out
}

/// Plain-layout source text of `s`.
pub fn print_plain(s: &S) -> String {
    crate::tok::render_plain(&print_tokens(s)).0
}

// ---------------------------------------------------------------------------------------------
// R-scope: scoping rules of C08 on named terms.
// ---------------------------------------------------------------------------------------------

#[derive(Clone, PartialEq, Eq, Debug)]
pub enum ScopeErr {
    Unbound(String),
    Rebound(String),
}

/// Check the scoping rules: a parameter scopes over its body / codomain only; all definitions of a
/// (flattened) group scope over every annotation, definition and the body of the group; `_` binds
/// nothing and is a hole as an expression; mentioning a name not in scope and re-binding a name in
/// scope are errors. `scope` holds the names in scope (the initial context first).
pub fn scope_errors(s: &S, scope: &mut Vec<String>, errs: &mut Vec<ScopeErr>) {
    match s {
        S::Var(n) => {
            if n != PLACEHOLDER && !scope.contains(n) {
                errs.push(ScopeErr::Unbound(n.clone()));
            }
        }
        S::Lam { name, ann, body, .. } => {
            if let Some(a) = ann {
                scope_errors(a, scope, errs);
            }
            bind_one(name, body, scope, errs);
        }
        S::Pi { name, dom, cod, .. } => {
            scope_errors(dom, scope, errs);
            match name {
                Some(n) => bind_one(n, cod, scope, errs),
                None => bind_one(PLACEHOLDER, cod, scope, errs),
            }
        }
        S::App(a, b) | S::Bin(_, a, b) => {
            scope_errors(a, scope, errs);
            scope_errors(b, scope, errs);
        }
        S::Neg(a) | S::Paren(a) => scope_errors(a, scope, errs),
        S::If(a, b, c) => {
            scope_errors(a, scope, errs);
            scope_errors(b, scope, errs);
            scope_errors(c, scope, errs);
        }
        S::Let { defs, body } => {
            let base = scope.len();
            for d in defs {
                if d.name != PLACEHOLDER {
                    if scope.contains(&d.name) {
                        errs.push(ScopeErr::Rebound(d.name.clone()));
                    }
                    scope.push(d.name.clone());
                }
            }
            for d in defs {
                if let Some(a) = &d.ann {
                    scope_errors(a, scope, errs);
                }
                scope_errors(&d.def, scope, errs);
            }
            scope_errors(body, scope, errs);
            scope.truncate(base);
        }
        _ => {}
    }
}

fn bind_one(name: &str, body: &S, scope: &mut Vec<String>, errs: &mut Vec<ScopeErr>) {
    if name == PLACEHOLDER {
        scope_errors(body, scope, errs);
        return;
    }
    if scope.iter().any(|n| n == name) {
        errs.push(ScopeErr::Rebound(name.to_owned()));
    }
    scope.push(name.to_owned());
    scope_errors(body, scope, errs);
    scope.pop();
}
