// Runs C03's oracle on the program given as argument: gram's verdict, then the reference checker on the elaborated term.
use gv::pipe::{self, Front};
use gv::typed::{self, ElabVerdict};
fn main() {
    let text = std::env::args().nth(1).expect("program text");
    let r = pipe::with_front(&text, |front| match front {
        Front::Accepted { elaborated, ty, hole_copies, .. } => {
            let v = match typed::check_elaborated(elaborated, ty, true) {
                ElabVerdict::Ok => "ok".to_owned(),
                ElabVerdict::Hole => "hole".to_owned(),
                ElabVerdict::Fuel => "fuel".to_owned(),
                ElabVerdict::Bad(w) => format!("BAD: {w}"),
            };
            format!("accepted: `{elaborated}` : `{ty}` (hole copies {hole_copies}) -> reference: {v}")
        }
        _ => "rejected".to_owned(),
    });
    println!("{r:?}");
}
