use gv::checks::c17::*;
fn main() {
    let fam: usize = std::env::args().nth(1).unwrap().parse().unwrap();
    let var: usize = std::env::args().nth(2).unwrap().parse().unwrap();
    for n in [25, 50, 100, 200, 400, 800, 1600] {
        let text = (FAMILIES[fam].1)(n);
        let text = dmg(&text, var);
        let m = measure(&text).unwrap();
        println!("n={n} tokens={} calls={} per={:.1} cpu={:.4} ok={}", m.tokens, m.calls, m.calls as f64 / m.tokens.max(1) as f64, m.cpu_s, m.ok);
        if n == 25 { println!("{}", &text[..text.len().min(300)]); }
    }
}
