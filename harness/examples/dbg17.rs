use gv::checks::c17::*;
fn main() { std::thread::Builder::new().stack_size(1<<30).spawn(main2).unwrap().join().unwrap(); }
fn main2() {
    let fam: usize = std::env::args().nth(1).unwrap().parse().unwrap();
    let var: usize = std::env::args().nth(2).unwrap().parse().unwrap();
    for n in [25, 100, 400, 1536, 3072, 6144] {
        let text = (FAMILIES[fam].1)(n);
        let text = dmg(&text, var);
        let m = measure(&text).unwrap();
        println!("n={n} tokens={} calls={} per={:.1} pass={} cpu={:.4} ok={}", m.tokens, m.calls, m.calls as f64 / m.tokens.max(1) as f64, m.pass_calls, m.cpu_s, m.ok);
        if n == 25 { println!("{}", &text[..text.len().min(300)]); }
    }
}
