use gv::gens::prog::{self, ProgCfg};
use gv::util::{Ch, Lcg};
use gv::pipe;
fn main() {
    let n: usize = std::env::args().nth(1).and_then(|s| s.parse().ok()).unwrap_or(5000);
    let mut lcg = Lcg(12345);
    let (mut made, mut rejected, mut shown) = (0, 0, 0); let mut shown2 = 0;
    let mut feats = std::collections::BTreeMap::<String, usize>::new();
    let h = std::thread::Builder::new().stack_size(1 << 30).spawn(move || {
    for _ in 0..n {
        let data: Vec<u16> = (0..400).map(|_| (lcg.next() >> 20) as u16).collect();
        let mut ch = Ch::new(&data);
        let cfg = ProgCfg { forward_aliases: false, ..ProgCfg::default() };
        let kind = [0, 0, 1, 2][ch.pick(4)];
        let fuel = 2 + ch.pick(4);
        let Some(p) = prog::gen_program(&mut ch, cfg, kind, fuel) else { continue };
        if p.text.len() > 3000 { continue }
        made += 1;
        for f in &p.features { *feats.entry(f.to_string()).or_default() += 1; }
        if p.features.contains("type alias of the goal type or of a parameter type") && p.features.contains("polymorphic / dependent definition") && shown2 < 6 { shown2 += 1; println!("SAMPLE: {}", p.text); }
        let ok = pipe::with_two_checked(&p.text, "1", |a, _| a.is_some()).unwrap_or(true);
        if !ok {
            rejected += 1;
            if shown < 5 { shown += 1; println!("REJECTED: {}", p.text); }
        }
    }
    println!("made {made} rejected {rejected}");
    for (k, v) in feats { println!("{v:6} {k}"); }
    }).unwrap();
    h.join().unwrap();
}
