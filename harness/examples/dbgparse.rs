fn main() {
    let src = std::env::args().nth(1).unwrap();
    let toks = gv::refs::lex::expected_stream(&src).unwrap();
    println!("{:?}", toks.iter().map(|t| t.plain()).collect::<Vec<_>>());
    let g = gv::refs::chart::load_repo_grammar();
    let (c, s) = gv::refs::chart::parse_tokens(&g, &toks);
    println!("count={c} {:?}", s.map(|s| gv::sast::print_plain(&s)));
}
