use gv::util::Ch;
use std::time::Instant;
fn main() {
    let data = std::fs::read(std::env::args().nth(1).unwrap()).unwrap();
    let choices: Vec<u16> = data.chunks(2).map(|c| u16::from(c[0]) << 8 | u16::from(*c.get(1).unwrap_or(&0))).collect();
    let mut ch = Ch::new(&choices);
    let t0 = Instant::now();
    let toks = gv::checks::c10::gen_tokens_pub(&mut ch);
    println!("gen {} tokens in {:?}", toks.len(), t0.elapsed());
    let (text, _) = gv::tok::render_plain(&toks);
    println!("{}", &text[..text.len().min(600)]);
    let t1 = Instant::now();
    let gt = gv::tokenizer::tokenize(None, &text).unwrap();
    println!("tokenize {:?}", t1.elapsed());
    let t2 = Instant::now();
    let r = gv::parser::parse(None, &text, &gt, &["c0"]);
    println!("parse ok={} in {:?}", r.is_ok(), t2.elapsed());
    if let Err(e) = &r { println!("{} errors; first: {}", e.len(), e[0].message.lines().next().unwrap()); }
    let t3 = Instant::now();
    let d = gv::dterm::D::from_gram(r.as_ref().unwrap());
    println!("D::from_gram {:?} size {}", t3.elapsed(), d.size());
    let t4 = Instant::now();
    let res = gv::checks::c10::fuzz_one(&choices);
    println!("fuzz_one ok={} {:?}", res.is_ok(), t4.elapsed());
}
#[allow(dead_code)]
fn unused() {}
