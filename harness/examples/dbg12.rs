use gv::term::{Term, Variant};
use gv::dterm::D;
use std::rc::Rc; use std::cell::RefCell;
fn main() {
    let t = |v: Variant<'static>| Term { source_range: None, variant: v };
    let h1 = Rc::new(RefCell::new(None)); let h2 = Rc::new(RefCell::new(None));
    let int = || Rc::new(t(Variant::Integer));
    let p1 = t(Variant::Lambda("x", false, int(), Rc::new(t(Variant::Unifier(h1.clone(), 1)))));
    let p2 = t(Variant::Lambda("x", false, int(), Rc::new(t(Variant::Lambda("y", false, int(), Rc::new(t(Variant::Unifier(h2.clone(), 0))))))));
    let ok = gv::unifier::unify(&p1, &p2, &mut vec![]);
    println!("step1 ok={ok} h1={:?}", h1.borrow().as_ref().map(|c| D::from_gram(c).show()));
    let p3 = t(Variant::Lambda("x", false, int(), Rc::new(t(Variant::Lambda("y", false, int(), Rc::new(t(Variant::Variable("x", 1))))))));
    let ok2 = gv::unifier::unify(&p2, &p3, &mut vec![]);
    println!("step2 ok={ok2} h2={:?} h1={:?}", h2.borrow().as_ref().map(|c| D::from_gram(c).show()), h1.borrow().as_ref().map(|c| D::from_gram(c).show()));
    println!("p1 now prints as {p1}");
}
