// Runs C03's oracle over programs of the scope-escape family; prints the ones the reference checker objects to.
use gv::pipe::{self, Front};
use gv::typed::{self, ElabVerdict};
fn main() {
    let n: usize = std::env::args().nth(1).and_then(|a| a.parse().ok()).unwrap_or(200);
    let mut x: u64 = 0x9E3779B97F4A7C15;
    let (mut rej, mut ok, mut hole, mut bad) = (0, 0, 0, 0);
    for _ in 0..n {
        let mut choices = vec![];
        for _ in 0..40 {
            x ^= x << 13; x ^= x >> 7; x ^= x << 17;
            choices.push((x >> 20) as u16);
        }
        let mut ch = gv::util::Ch::new(&choices);
        let text = gv::checks::c03::escape_program(&mut ch);
        let r = pipe::with_front(&text, |front| match front {
            Front::Accepted { elaborated, ty, .. } => match typed::check_elaborated(elaborated, ty, true) {
                ElabVerdict::Ok => 1,
                ElabVerdict::Hole => 2,
                ElabVerdict::Fuel => 2,
                ElabVerdict::Bad(_) => 3,
            },
            _ => 0,
        });
        match r { Ok(0) => rej += 1, Ok(1) => ok += 1, Ok(2) => hole += 1, Ok(3) => { bad += 1; if !text.contains("-> _") { println!("BAD {text}"); } } _ => println!("panic {text}") }
    }
    println!("rejected {rej} ok {ok} holes {hole} bad {bad}");
}
