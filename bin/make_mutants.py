#!/usr/bin/env python3
"""Writes /verif/mutants/<ID>/<name>.diff: single-site source changes of the kind a refactoring slip
produces (DESIGN.md section 5). Each entry: (property, name, file, old, new, which occurrence)."""
import os, subprocess, shutil, tempfile, sys

M = [
 # C01
 ("C01","arith-left-operand-unchecked","src/type_checker.rs","            // Check that the type of the left subterm is the type of integers.\n            if !unify(&term1_type, &integer_term, definitions_context) {","            // Check that the type of the left subterm is the type of integers.\n            if false && !unify(&term1_type, &integer_term, definitions_context) {",1),
 ("C01","if-condition-unchecked","src/type_checker.rs","            if !unify(&condition_type, &boolean_term, definitions_context) {","            if false && !unify(&condition_type, &boolean_term, definitions_context) {",1),
 ("C01","argument-domain-unchecked","src/type_checker.rs","            if !unify(&domain, &argument_type, definitions_context) {","            if false && !unify(&domain, &argument_type, definitions_context) {",1),
 ("C01","order-check-ignores-nonvalue-forward","src/parser.rs","                } else if definition_index >= start_index {","                } else if definition_index > start_index + 1 {",1),
 ("C01","group-unfold-wrong-index","src/evaluator.rs","                let substituted_body = open(body, index, &unfolded_definition, 0);","                let substituted_body = open(body, 0, &unfolded_definition, 0);",1),
 # C02
 ("C02","difference-operands-swapped","src/evaluator.rs","                    variant: IntegerLiteral(integer1 - integer2),","                    variant: IntegerLiteral(integer2 - integer1),",1),
 ("C02","gt-becomes-ge","src/evaluator.rs","                    variant: if integer1 > integer2 { True } else { False },","                    variant: if integer1 >= integer2 { True } else { False },",1),
 ("C02","if-takes-else-on-true","src/evaluator.rs","                True => Some((**then_branch).clone()),\n                False => Some((**else_branch).clone()),","                True => Some((**else_branch).clone()),\n                False => Some((**then_branch).clone()),",1),
 ("C02","argument-not-evaluated-first","src/evaluator.rs","            // Try to step the argument.\n            if let Some(stepped_argument) = step(argument) {","            // Try to step the argument.\n            if let (Some(stepped_argument), false) = (step(argument), matches!(applicand.variant, Lambda(_, _, _, _))) {",1),
 ("C02","quotient-of-negatives-rounds-down","src/evaluator.rs","                integer1.checked_div(integer2).map(|quotient| Term {\n                    source_range: None,\n                    variant: IntegerLiteral(quotient),","                integer1.checked_div(integer2).map(|quotient| Term {\n                    source_range: None,\n                    variant: IntegerLiteral(if integer1.sign() == num_bigint::Sign::Minus && integer2.bits() > 3 && integer1 % integer2 != num_bigint::BigInt::from(0) { quotient - 1 } else { quotient }),",1),
 # C03
 ("C03","branches-agree-unchecked","src/type_checker.rs","            if !unify(&then_branch_type, &else_branch_type, definitions_context) {","            if false && !unify(&then_branch_type, &else_branch_type, definitions_context) {",1),
 ("C03","lambda-domain-is-type-unchecked","src/type_checker.rs","            // Check that the type of the domain is the type of all types.\n            if !unify(&domain_type, &type_term, definitions_context) {","            // Check that the type of the domain is the type of all types.\n            if false && !unify(&domain_type, &type_term, definitions_context) {",1),
 ("C03","if-returns-else-type","src/type_checker.rs","                then_branch_type,\n            )\n        }\n        True | False","                else_branch_type,\n            )\n        }\n        True | False",1),
 ("C03","definition-vs-annotation-unchecked","src/type_checker.rs","                    if !unify(&definition_type, annotation, borrowed_definitions_context) {","                    if false && !unify(&definition_type, annotation, borrowed_definitions_context) {",1),
 ("C03","equality-ignores-literal-arguments","src/equality.rs","            syntactically_equal(applicand1, applicand2) && syntactically_equal(argument1, argument2)","            syntactically_equal(applicand1, applicand2)\n                && (syntactically_equal(argument1, argument2)\n                    || matches!((&argument1.variant, &argument2.variant), (IntegerLiteral(_), IntegerLiteral(_))))",1),
 ("C03","unify-pi-ignores-domain","src/unifier.rs","            implicit1 == implicit2 && unify(domain1, domain2, definitions_context) && {","            implicit1 == implicit2 && (unify(domain1, domain2, definitions_context) || !*implicit1) && {",1),
 # C04
 ("C04","application-type-uses-unopened-codomain","src/type_checker.rs","                open(&codomain, 0, &argument, 0),","                (*codomain).clone(),",1),
 ("C04","beta-substitutes-shifted","src/evaluator.rs","                Some(open(body, 0, argument, 0))","                Some(open(body, 0, argument, if matches!(argument.variant, Pi(_, _, _, _)) { 1 } else { 0 }))",1),
 # C05
 ("C05","elaborated-if-swaps-branches","src/type_checker.rs","                    variant: If(\n                        Rc::new(condition),\n                        Rc::new(then_branch),\n                        Rc::new(else_branch),\n                    ),","                    variant: If(\n                        Rc::new(condition),\n                        Rc::new(else_branch),\n                        Rc::new(then_branch),\n                    ),",1),
 ("C05","elaborated-difference-swaps-operands","src/type_checker.rs","                    variant: Difference(Rc::new(term1), Rc::new(term2)),","                    variant: Difference(Rc::new(term2), Rc::new(term1)),",1),
 ("C05","variable-type-shift-off-by-one","src/type_checker.rs","                unsigned_shift(variable_type, 0, index + 1 - offset),","                unsigned_shift(variable_type, 0, index + usize::from(*offset == 0) - usize::from(*offset > 1) * (offset - 1)),",1),
 ("C05","group-type-cutoff-zero-again","src/type_checker.rs","                                                annotation,\n                                                definitions.len(),","                                                annotation,\n                                                0,",1),
 # C06
 ("C06","normalizer-quotient-swapped","src/normalizer.rs","                integer1.checked_div(integer2).map_or_else(","                integer2.checked_div(integer1).map_or_else(",1),
 ("C06","normalizer-gt-becomes-ge","src/normalizer.rs","                    variant: if integer1 > integer2 { True } else { False },","                    variant: if integer1 >= integer2 { True } else { False },",1),
 ("C06","unify-sum-crosses-operands","src/unifier.rs","            unify(term11, term12, definitions_context) && unify(term21, term22, definitions_context)","            unify(term11, term12, definitions_context)\n                && (unify(term21, term22, definitions_context) || unify(term21, term12, definitions_context))",1),
 ("C06","normalizer-if-false-takes-then","src/normalizer.rs","                False => normalize_weak_head(else_branch, definitions_context),","                False => normalize_weak_head(then_branch, definitions_context),",1),
 # C07
 ("C07","sum-after-large-term","src/parser.rs","    // Try to parse a sum.\n    try_return!(cache, cache_key, parse_sum(cache, tokens, start));\n\n    // Try to parse a difference.\n    try_return!(cache, cache_key, parse_difference(cache, tokens, start));\n\n    // Try to parse a large term.\n    try_return!(cache, cache_key, parse_large_term(cache, tokens, start));","    // Try to parse a large term.\n    try_return!(cache, cache_key, parse_large_term(cache, tokens, start));\n\n    // Try to parse a sum.\n    try_return!(cache, cache_key, parse_sum(cache, tokens, start));\n\n    // Try to parse a difference.\n    try_return!(cache, cache_key, parse_difference(cache, tokens, start));",1),
 ("C07","quotient-rebuilt-as-product","src/parser.rs","                ProductOrQuotient::Quotient => Variant::Quotient(Rc::new(acc), Rc::new(reduced)),","                ProductOrQuotient::Quotient => Variant::Product(Rc::new(acc), Rc::new(reduced)),",1),
 ("C07","let-annotation-jumbo","src/parser.rs","                try_eval!(cache, cache_key, parse_small_term(cache, tokens, next));\n\n            // Package up the annotation in the right form.","                try_eval!(cache, cache_key, parse_jumbo_term(cache, tokens, next));\n\n            // Package up the annotation in the right form.",1),
 ("C07","trailing-tokens-ignored","src/parser.rs","    if error_factories.is_empty() && next != tokens.len() {","    if error_factories.is_empty() && next + 1 < tokens.len() {",1),
 ("C07","group-flag-lost","src/parser.rs","                group: true,\n                variant: term.variant,","                group: false,\n                variant: term.variant,",1),
 # C08
 ("C08","index-off-by-depth","src/parser.rs","                    variant: term::Variant::Variable(variable, depth - 1 - variable_depth),","                    variant: term::Variant::Variable(variable, if depth > 4 { depth - variable_depth - 2 + usize::from(*variable_depth + 2 > depth) * 1 } else { depth - 1 - variable_depth }),",1),
 ("C08","lambda-name-not-removed","src/parser.rs","            defer! {{ context_cell.borrow_mut().remove(variable.name); }};\n\n            // Construct the lambda.","            defer! {{ context_cell.borrow_mut().remove(if *implicit { \"\" } else { variable.name }); }};\n\n            // Construct the lambda.",1),
 ("C08","group-depth","src/parser.rs","                    borrowed_context.insert(inner_variable.name, depth + i);","                    borrowed_context.insert(inner_variable.name, depth + i.min(2));",1),
 ("C08","pi-domain-after-parameter","src/parser.rs","                        borrowed_context.insert(inner_variable.name, depth + i);","                        borrowed_context.insert(inner_variable.name, depth + if definitions.len() > 2 { definitions.len() - 1 - i } else { i });",1),
 ("C08","placeholder-added-to-context","src/parser.rs","            if variable.name != PLACEHOLDER_VARIABLE {\n                // Report an error if the variable is already in the context.\n                if context.contains_key(variable.name) {\n                    errors.push(throw::<Error>(\n                        &format!(\"Variable {} already exists.\", variable.name.code_str()),\n                        source_path,\n                        Some(&listing(source_contents, variable.source_range)),\n                        None,\n                    ));\n                }\n\n                // Add the variable to the context.\n                context.insert(variable.name, depth);\n            }\n\n            // Remove the variable from the context (if it was added) when the function\n            // returns.\n            let context_cell = RefCell::new(context);\n            defer! {{ context_cell.borrow_mut().remove(variable.name); }};\n\n            // Construct the pi type.","            if variable.name != PLACEHOLDER_VARIABLE || *implicit {\n                // Report an error if the variable is already in the context.\n                if context.contains_key(variable.name) {\n                    errors.push(throw::<Error>(\n                        &format!(\"Variable {} already exists.\", variable.name.code_str()),\n                        source_path,\n                        Some(&listing(source_contents, variable.source_range)),\n                        None,\n                    ));\n                }\n\n                // Add the variable to the context.\n                context.insert(variable.name, depth);\n            }\n\n            // Remove the variable from the context (if it was added) when the function\n            // returns.\n            let context_cell = RefCell::new(context);\n            defer! {{ context_cell.borrow_mut().remove(variable.name); }};\n\n            // Construct the pi type.",1),
 # C09
 ("C09","thin-arrow-range-short","src/tokenizer.rs","                            end: i + 2,\n                        },\n                        variant: Variant::ThinArrow,","                            end: i + 1,\n                        },\n                        variant: Variant::ThinArrow,",1),
 ("C09","identifier-continues-alphabetic-only","src/tokenizer.rs","                    if d.is_alphanumeric() || *d == '_' {","                    if d.is_alphabetic() || d.is_ascii_digit() || *d == '_' {",1),
 ("C09","unexpected-symbol-stops-after-first","src/tokenizer.rs","                    Some(&listing(source_contents, SourceRange { start: i, end })),\n                    None,\n                ));","                    Some(&listing(source_contents, SourceRange { start: i, end })),\n                    None,\n                ));\n                if errors.len() >= 3 {\n                    break;\n                }",1),
 ("C09","literal-drops-leading-part","src/tokenizer.rs","                        BigInt::parse_bytes(&source_contents.as_bytes()[i..end], 10).unwrap(),","                        BigInt::parse_bytes(&source_contents.as_bytes()[if end - i > 40 { i + 1 } else { i }..end], 10).unwrap(),",1),
 # C10
 ("C10","right-paren-does-not-end","src/tokenizer.rs","                        | Variant::RightCurly\n                        | Variant::RightParen\n                        | Variant::Terminator(TerminatorType::Semicolon)\n                        | Variant::True\n                        | Variant::Type => true,","                        | Variant::RightCurly\n                        | Variant::Terminator(TerminatorType::Semicolon)\n                        | Variant::True\n                        | Variant::Type => true,\n                        Variant::RightParen => false,",1),
 ("C10","comment-eats-line-break","src/tokenizer.rs","                    if d == '\\n' {\n                        break;\n                    }\n\n                    iter.next();","                    iter.next();\n\n                    if d == '\\n' {\n                        break;\n                    }",1),
 # C11
 ("C11","let-cutoff-plus-one","src/de_bruijn.rs","            let new_cutoff = cutoff + definitions.len();","            let new_cutoff = cutoff + definitions.len().min(2);",1),
 ("C11","open-shift-amount-let","src/de_bruijn.rs","            let new_shift_amount = shift_amount + definitions.len();","            let new_shift_amount = shift_amount + 1;",1),
 ("C11","open-decrements-equal","src/de_bruijn.rs","                        if *index > index_to_replace {\n                            index - 1","                        if *index > index_to_replace + usize::from(*index > 3) {\n                            index - 1",1),
 ("C11","free-variables-annotation-cutoff","src/term.rs","                free_variables(annotation, cutoff + definitions.len(), variables);","                free_variables(annotation, cutoff + 1, variables);",1),
 # C12
 ("C12","solution-not-lowered","src/unifier.rs","            *subterm1.borrow_mut() =\n                signed_shift(&whnf2, 0, -isize::try_from(*subterm_shift1).unwrap());","            *subterm1.borrow_mut() = signed_shift(&whnf2, 0, 0);",1),
 ("C12","occurs-check-dropped","src/unifier.rs","            if visited.contains(&HashableRc(subterm1.clone())) {\n                return false;\n            }","            if false && visited.contains(&HashableRc(subterm1.clone())) {\n                return false;\n            }",1),
 ("C12","pi-arm-forgets-pop","src/unifier.rs","                let codomains_unify = unify(codomain1, codomain2, definitions_context);\n\n                // Restore the context.\n                definitions_context.pop();","                let codomains_unify = unify(codomain1, codomain2, definitions_context);\n\n                // Restore the context.\n                if codomains_unify {\n                    definitions_context.pop();\n                }",1),
 # C13
 ("C13","sorted-by-parity-only","src/parser.rs","    variables.sort_unstable();\n","    variables.sort_unstable_by_key(|variable| variable % 2);\n",1),
 # C14
 ("C14","report-error-inverted","src/parser.rs","        // Report an error if the next token is not the expected token.\n        if report_error {\n            if next == tokens.len() {\n                $errors.push(error_factory(tokens, next, expectation));\n            } else if let token::Variant::$variant = tokens[next].variant {","        // Report an error if the next token is not the expected token.\n        if !report_error {\n            if next == tokens.len() {\n                $errors.push(error_factory(tokens, next, expectation));\n            } else if let token::Variant::$variant = tokens[next].variant {",1),
 ("C14","listing-slices-past-section","src/error.rs","                line[*section_start..*section_end].red(),\n                &line[*section_end..],","                line[*section_start..*section_end].red(),\n                &line[(*section_end + usize::from(*section_end > 30)).min(line.len())..],",1),
 ("C14","grapheme-cursor-offset","src/tokenizer.rs","                let mut cursor = GraphemeCursor::new(i, source_contents.len(), true);","                let mut cursor = GraphemeCursor::new(i + 1, source_contents.len(), true);",1),
 # C15
 ("C15","span-uses-first-end","src/parser.rs","fn span(x: SourceRange, y: SourceRange) -> SourceRange {\n    SourceRange {\n        start: x.start,\n        end: y.end,","fn span(x: SourceRange, y: SourceRange) -> SourceRange {\n    SourceRange {\n        start: x.start,\n        end: if y.end > x.end + 40 { x.end } else { y.end },",1),
 ("C15","application-error-points-at-applicand","src/type_checker.rs","                    source_path,\n                    argument\n                        .source_range","                    source_path,\n                    applicand\n                        .source_range",1),
 ("C15","listing-line-number-off","src/error.rs","            (i + 1).to_string(),","            (i + usize::from(i < 20)).to_string(),",1),
 ("C15","listing-skips-boundary-line","src/error.rs","        if pos <= source_range.start {","        if pos < source_range.start {",1),
 # C16
 ("C16","negation-operand-ungrouped","src/term.rs","            Self::Negation(subterm) => write!(f, \"-{}\", group(subterm)),","            Self::Negation(subterm) => write!(f, \"-{subterm}\"),",1),
 ("C16","difference-printed-as-sum","src/term.rs","            Self::Difference(term1, term2) => write!(f, \"{} - {}\", group(term1), group(term2)),","            Self::Difference(term1, term2) => write!(f, \"{} - {}\", group(term1), term2),",1),
 ("C16","pi-dependence-tests-index-1","src/term.rs","                if variables.contains(&0) {","                if variables.contains(&0) || variables.contains(&3) {",1),
 # C17
 ("C17","memo-never-stored","src/parser.rs","        $cache.insert(cache_key, value.clone());\n        return value;","        let _ = (&$cache, cache_key);\n        return value;",1),
 ("C17","memo-key-ignores-nonterminal-for-atoms","src/parser.rs","        let cache_key = (Nonterminal::$nonterminal, start);\n        if let Some(result) = $cache.get(&cache_key) {","        let cache_key = (Nonterminal::$nonterminal, start);\n        if let (Some(result), true) = ($cache.get(&cache_key), start % 2 == 0) {",1),
 # C18
 ("C18","pi-arm-drops-pop","src/type_checker.rs","            // Restore the context.\n            definitions_context.pop();\n            typing_context.pop();\n\n            // Return the new term and type.\n            (\n                Term {\n                    source_range: term.source_range,\n                    variant: Pi(","            // Restore the context.\n            definitions_context.pop();\n            if errors.is_empty() {\n                typing_context.pop();\n            }\n\n            // Return the new term and type.\n            (\n                Term {\n                    source_range: term.source_range,\n                    variant: Pi(",1),
 ("C18","group-offset-off-by-one","src/type_checker.rs","                borrowed_typing_context.push((annotation.clone(), definitions_len_minus_i));","                borrowed_typing_context.push((annotation.clone(), definitions_len_minus_i - usize::from(i > 1)));",1),
 ("C18","normalizer-shifts-definition-by-index","src/normalizer.rs","                        &unsigned_shift(definition, 0, index + 1 - offset),","                        &unsigned_shift(definition, 0, index + 1 - offset.min(&2)),",1),
 # C19
 ("C19","unfold-skips-later-definitions","src/evaluator.rs","                    .skip(1)\n                    .map(|(variable, annotation, definition)| {\n                        (\n                            *variable,\n                            Rc::new(open(annotation, index, &unfolded_definition, 0)),","                    .skip(1)\n                    .map(|(variable, annotation, definition)| {\n                        (\n                            *variable,\n                            Rc::new(open(annotation, index, &unfolded_definition, usize::from(variable.len() > 5))),",1),
]

def main():
    repo = '/repo'
    out = '/verif/mutants'
    made = 0
    for (pid, name, f, old, new, nth) in M:
        src = open(os.path.join(repo, f)).read()
        if src.count(old) < nth:
            print(f"SKIP {pid}/{name}: pattern not found ({src.count(old)} occurrences)"); continue
        idx = -1
        for _ in range(nth):
            idx = src.find(old, idx + 1)
        mutated = src[:idx] + new + src[idx+len(old):]
        d = tempfile.mkdtemp(prefix='mut', dir='/tmp')
        os.makedirs(os.path.join(d, 'a', os.path.dirname(f))); os.makedirs(os.path.join(d, 'b', os.path.dirname(f)))
        open(os.path.join(d, 'a', f), 'w').write(src); open(os.path.join(d, 'b', f), 'w').write(mutated)
        diff = subprocess.run(['diff', '-u', os.path.join('a', f), os.path.join('b', f)], cwd=d, capture_output=True, text=True).stdout
        os.makedirs(os.path.join(out, pid), exist_ok=True)
        open(os.path.join(out, pid, name + '.diff'), 'w').write(diff)
        shutil.rmtree(d)
        made += 1
    print("wrote", made, "mutants")
main()
