#!/usr/bin/env python3
"""Writes /verif/MANIFEST.json from the table below (single source of truth for the interface)."""
import json, subprocess

CHECKS = {
 "C01": dict(
   technique="property-based testing (proptest, type-directed generation + mutation) + bounded-exhaustive enumeration; oracle = classification of stuck terms",
   text="Progress is tested on the programs gram itself accepts: type-directed generated programs (plain, erased, hole-inserted), type-breaking mutants that slip through, a risky-definition-order class built around the boundary of the definition-order check (later / nested / function-body references, nesting depth 3), every closed explicit program up to size 5/6, the examples and the inputs quoted in the property. Each is run with gram's own step relation under a budget; a stuck term is classified by descending the CBV evaluation contexts, and only `literal / 0` is allowed. Sampled beyond the enumerated size.",
   note="Three recorded findings are matched by signature on the blocking redex (later value definition; unresolved hole; wrong-kind redex + hole-copy hook). Needs the de_bruijn hook for attribution only.",
   ref="DESIGN.md section 3, C01"),
 "C02": dict(
   technique="property-based testing (proptest, type-directed generation) against an independent call-by-value interpreter",
   text="Differential testing of gram's evaluator (step loop on the elaborated term) against an independent environment-based CBV interpreter run on the source program: same literal for int/bool results (boundary integers up to 10^40, all operators and sign combinations), same kind for function/type results, 'stops at literal / 0' on both sides (poisoned branches, ignored arguments, unused definitions), recursion and mutual recursion to depth 300/2000. Sampled.",
   note="Trusts R-cbv (written from the property statement) and BigInt arithmetic (cross-checked against i128 in the self-test).",
   ref="DESIGN.md section 3, C02"),
 "C03": dict(
   technique="property-based testing (proptest, generation + type-breaking mutation) + bounded-exhaustive enumeration against an independent type checker (NbE conversion)",
   text="Whenever gram accepts a generated, perturbed, erased or enumerated program, an independent checker for explicit terms must find the elaborated term well scoped, well typed, and of a type convertible with the reported one; explicit programs the independent checker rejects must be rejected. 70% of generated programs carry 1-2 type-breaking mutations; all closed explicit programs up to size 5/6 are enumerated, so each side condition is exercised in isolation (the evidence lists per-rule rejection counts). A generated `scope escape` family (the type of an un-annotated parameter would have to mention a variable bound after it: directly, under binders, through the unsolved type of another un-annotated parameter) and programs in which a local function captures a parameter before its type is fixed exercise the scoping of hole solutions.",
   note="Trusts R-core's typing rules and NbE conversion; elaborated terms with unresolved holes are outside its domain. Two recorded findings are matched by signature: hole identity lost (hook counter + failure shape); a hole written under a binder of a type (`-> _` in the source, or a panic at the normaliser's context lookup on a source with an explicit hole).",
   ref="DESIGN.md section 3, C03"),
 "C04": dict(
   technique="property-based testing (proptest, type-directed generation); oracle = value shape + independent type inference on the value",
   text="For accepted generated programs over int, bool, type, function, dependent-function and computed types, the value reached by gram's step loop is compared with the reported type: by shape, and by inferring a type for the value with the independent checker and testing convertibility with the reported type. A directed family (an un-annotated parameter against a written type that mentions a later binder which disappears under normalisation, the function applied at the right and at a wrong type) and programs in which a local function captures a parameter before its type is fixed cover the scoping of hole solutions. Sampled.",
   note="Trusts R-core; values / types with unresolved holes are outside its domain.",
   ref="DESIGN.md section 3, C04"),
 "C05": dict(
   technique="property-based testing (proptest, type-directed generation) with a reference checker as domain filter and a pre-check snapshot",
   text="Fully annotated programs produced by type-directed generation (polymorphic, higher-order, dependent, recursive and mutually recursive groups, forward type aliases, nesting) that the independent checker accepts must be accepted by gram at a convertible type (an abort of the checker is a violation: the inputs terminate by construction), and the elaborated term must equal the parser's output snapshot except at holes. Sampled.",
   note="Trusts R-core as the definition of 'well typed'.",
   ref="DESIGN.md section 3, C05"),
 "C06": dict(
   technique="property-based testing (proptest): differential (normaliser vs evaluator), metamorphic (reducts), and agreement with NbE normal-form equality",
   text="(a) normalize_weak_head equals the evaluator's literal on closed ground programs; (b) unify(t,t) and unify with every sampled term of t's step sequence and with reference reducts (beta, arithmetic, if) at random positions, both argument orders; (c,d) for pairs of closed hole-free terms of one type, unify(a,b) = unify(b,a) = equality of NbE normal forms. The evidence reports the equal / unequal split. Sampled.",
   note="Trusts R-core's NbE and the reference reducer; pairs with recursive definitions are excluded from (c,d).",
   ref="DESIGN.md section 3, C06"),
 "C07": dict(
   technique="bounded-exhaustive enumeration + property-based testing (proptest) against a chart parser that reads grammar.y",
   text="Differential testing of parse() against a general CFG recogniser with derivation counting that works on the productions read from /repo/grammar.y: every token string up to length 4 (quick) / 5 (thorough) over the 28 token kinds, random longer token strings, proptest-generated sentences with every former in every position and redundant parentheses, one/two-token mutations of sentences, and sentences with a matching pair of brackets dropped. For sentences gram's tree must equal the unique derivation with the three chain kinds left-associated and lets flattened; every string examined must have at most one derivation. Exhaustive for short strings, sampled beyond.",
   note="Trusts the harness's grammar reader, chart parser and derivation-to-tree mapping (self-checked: printing a generated tree and reading it back with the chart parser must give the same tree, else exit 2).",
   ref="DESIGN.md section 3, C07"),
 "C08": dict(
   technique="property-based testing (proptest) against a named scope resolver with binder-node identity",
   text="Generated well-scoped programs (deep nesting, multi-definition groups in every position, re-used sibling names, `_`, context names) are parsed and every Variable(name, index) is checked to point at the binder node a named resolver expects; single-point perturbations (unbound occurrence, re-binding of an enclosing parameter / earlier or later definition / context name) must be rejected with the matching diagnostic. Sampled, not exhaustive.",
   note="Trusts the named resolver written from the property statement; programs rejected only by the definition-order check are skipped.",
   ref="DESIGN.md section 3, C08"),
 "C09": dict(
   technique="bounded-exhaustive enumeration + property-based testing (proptest) against a reference lexer",
   text="Differential testing of tokenize() against an independent reference lexer plus range/partition invariants, over every string up to length 6-8 on three class-covering alphabets (tens of millions of strings, exhaustive) and proptest-generated token soups and Unicode texts. Exhaustive for short strings, sampled beyond; it cannot show absence of defects for longer inputs or unlisted character classes.",
   note="Trusts the reference lexer written from the property statement, Rust's char classification, and unicode-segmentation's grapheme segmentation.",
   ref="DESIGN.md section 3, C09"),
 "C10": dict(
   technique="property-based testing (proptest) with metamorphic re-layout + bounded-exhaustive enumeration against the reference lexer",
   text="Metamorphic testing: the token list of generated programs and of /repo/examples is rendered under generated layouts (spaces, tabs, NBSP, CRLF, comments of every kind, line breaks wherever the rule says they do not separate, terminators as `;` or line breaks) and must tokenize to the same stream and parse to the same term as the plain layout; conversely an inserted line break between an expression-ending and an expression-starting token must become a terminator; all strings up to length 6/7 over a layout alphabet are compared with the reference lexer. Sampled layouts, exhaustive short strings.",
   note="Trusts the reference layout rule (transcribed from the property statement) used both to generate layouts and to judge short strings.",
   ref="DESIGN.md section 3, C10"),
 "C11": dict(
   technique="bounded-exhaustive enumeration + property-based testing (proptest) against capture-avoiding substitution on named terms",
   text="signed_shift / unsigned_shift / open / free_variables are compared with renaming and capture-avoiding substitution on named terms (globally fresh binder names) and with the algebraic laws of the property, for every hole-free term up to 5-6 nodes over all formers, every 1-3-definition group with leaf slots, a full grid of cutoffs, amounts, indices and inserted terms, and proptest-generated deeper terms. Exhaustive within the bound, sampled beyond.",
   note="Trusts the named-term model (conversion by context of names; Barendregt convention) and the reading of open's shift argument stated in the evidence file.",
   ref="DESIGN.md section 3, C11"),
 "C12": dict(
   technique="property-based testing (proptest): hole punching into well-typed terms, solution invariants checked against NbE conversion",
   text="Patterns are cut from generated well-typed closed terms by replacing 1-4 subterms at arbitrary depths by holes with shifts that make them solvable, scope-escaping or non-linear, and unified (both orders) with the original, a reduct, an unrelated term or another pattern, with and without a definitions context; the same instance read through holes that are solved already; near misses of the term (one point changed, a group one definition longer or shorter with the body at the same index; with or without holes) so that a wrong `yes` is visible; occurs-check shapes and two-call histories (a hole solved by a term containing a hole that a later call solves) are generated too. Whenever unify returns true: solved cells are acyclic, every solution's free indices fit the scope of every occurrence of its hole, both sides with the solutions read in are convertible by an independent NbE, and the context keeps its length. Sampled.",
   note="Nothing is demanded when unify returns false. Two recorded findings are matched by signature (hole copied by open during the call - hook counter; scope escape through a later-solved inner hole - only in the two-call part).",
   ref="DESIGN.md section 3, C12"),
 "C13": dict(
   technique="property-based testing (proptest) with repeated process launches; oracle = byte equality across runs",
   text="Generated files built to produce several diagnostics at once (a definition that mentions 2-6 later non-value definitions, several unbound / re-bound names, several type errors, several stray symbols, mixtures), accepted programs, faults next to several bound names one edit apart (diagnostics that may consult the whole scope), syntax near-misses, invalid UTF-8 and the empty file are run 6 (quick) / 12 (thorough) times per sub-command in separate processes; (status, stdout, stderr) must be byte-identical. In-process companion: 10 parse() calls on the same tokens must return identical diagnostics. Cannot prove determinism; the escape probability per file with k permutable diagnostics is (1/k!)^(launches-1).",
   note="Trusts process isolation (fresh hash seeds per launch). Fixed path, cwd and NO_COLOR.",
   ref="DESIGN.md section 3, C13"),
 "C14": dict(
   technique="property-based testing / fuzzing (proptest) + bounded-exhaustive enumeration, in worker processes with abort attribution",
   text="Robustness fuzzing with a result-shape oracle: generated Unicode strings, token soups, character- and token-damaged sentences, every token string up to length 4/5, unbalanced brackets, truncated sentences and scoping-valid ill-typed programs go through tokenize / parse / type_check under catch_unwind in worker processes (a stack overflow or hang is attributed to the announced case); sentences with identifier names scrambled (names used where they are not in scope, bound twice) go through parse; files of arbitrary bytes (invalid UTF-8, empty, damaged programs, nesting to 1000) go through `gram check`. No panic; Ok or a non-empty list of [Error] diagnostics; CLI exit 0 + result on stdout + empty stderr, or exit 1 + empty stdout + [Error]. Sampled except for the short token strings.",
   note="One recorded finding (a hole written under a binder of a type: the checker panics on a well-typed program) is matched by its call site and the explicit hole in the source; it is re-observed on three fixed inputs. An abort or hang inside type_check is counted inconclusive (divergent programs are allowed to diverge); nesting beyond ~3000 parentheses exhausts the CLI's 16 MiB stack and is outside the explored bound.",
   ref="DESIGN.md section 3, C14"),
 "C15": dict(
   technique="property-based testing (proptest) with planted faults against a reference excerpt renderer + re-parse of every subterm range",
   text="Rejected programs are generated with one planted fault of known byte span (unbound / re-bound names in all binder forms, seven type-fault kinds with atomic, parenthesised and multi-line offending expressions, stray symbols) at generated positions (after up to 40 lines, after non-ASCII text on the line, on continuation lines, LF/CRLF, with/without final newline); the diagnostic's excerpt must show exactly the spanned lines, right numbers, and overline columns equal to the span's characters. Invisible marks (byte order mark, zero-width space) are among the symbols, also as the first character of the file - where, if the mark is not diagnosed at all, the second planted fault must be pointed at in the file's own coordinates. White-box companion: every subterm range of generated programs under multi-line layouts lies in the file on char boundaries, nests in its parent, and re-parses in scope to the same subterm. Sampled.",
   note="Trusts the reference excerpt model (R-listing); spans may include or exclude parentheses that enclose only the offending expression.",
   ref="DESIGN.md section 3, C15"),
 "C16": dict(
   technique="property-based testing (proptest) round trip print -> tokenize -> parse",
   text="Round-trip testing: generated source programs covering every (parent position x child form) pair are parsed, printed with Display, tokenized and parsed again in the same scope; the result must be structurally identical (indices, implicit flags, literals, definition order, holes, names except unused pi parameters); a share of the sources has the tail of a group in parentheses. The evidence lists the pair matrix with counts. Sampled, not exhaustive; elaborated terms are covered through C05's and C19's programs.",
   note="Trusts the structural comparison in bridge.rs; the recorded finding (implicit pi with unused parameter) is matched by that exact shape only.",
   ref="DESIGN.md section 3, C16"),
 "C17": dict(
   technique="scaling measurement over generated input families on a deterministic work counter (hook)",
   text="72 input families (among them groups nested as arguments / operands / conditions / definitions with a stray token before each closing bracket, and three-operand application, product and sum chains nested in head, middle or last operand with the other operands parenthesised or not) x 5 damage variants with n doubling from 6 to 1536 (quick) / 6144 (thorough), plus proptest-generated random compositions: the number of parsing-function calls (hook in cache_check!) must stay below 250 per token, the calls of the passes over the parsed term (second hook) below 40 per token, the diagnostics returned below 3 per token (the error path is work too), and the per-token rate must not rise on two successive doublings; CPU time growing >12x on two successive doublings and hangs (watchdog, attributed to the announced input) are violations too. Decides linearity of the memoised parser on the explored families; says nothing about families not listed.",
   note="Needs the parser hook (feature verif). The constant was calibrated on the pinned tree (max observed about 60 calls per token).",
   ref="DESIGN.md section 3, C17"),
 "C18": dict(
   technique="property-based testing (proptest): open term under generated contexts vs the closed wrapper; context snapshots",
   text="Generated closed programs starting with 1-5 parameter / definition-group blocks are split into the contexts the checker itself would build (offsets 0 and n - i) and an open body, 40% with a planted type fault. type_check, unify and normalize_weak_head under the contexts must agree with the closed program (same verdict, convertible type after re-binding the blocks, same unify verdict, same literal), and after every call, Ok or Err, both context vectors must have the same length, Rc pointers and offsets as before. Sampled.",
   note="Contexts are built from the parsed, fully annotated prefix (what the checker pushes for explicit programs); no recursive definitions (conversion on them diverges).",
   ref="DESIGN.md section 3, C18"),
 "C19": dict(
   technique="property-based testing (proptest) with metamorphic relations between a program and its rewrites",
   text="Metamorphic testing without any reference semantics: accepted generated programs (a quarter annotation-erased) are rewritten 1-4 times (consistent renaming to ASCII / keyword-like / non-ASCII names, redundant parentheses, unused definitions wrapped around a node or inserted into a group, naming a node by a definition, annotated identity applied, `if true then e else e`, swapping independent adjacent function definitions; parentheses also around the tail of a group; `if true then T else D` with its own dead branch at every base-type annotation); the rewritten program must be accepted, gram's own conversion must judge the two reported types equal, and the step loop must end the same way (same literal / kind; identical value for parentheses-only rewrites); a sample is compared through `gram check` / `gram run`. Guards against errors shared by the other checks' reference models and the code. Sampled.",
   note="Value-changing rewrites are not applied at the root of a definition (syntactic value-ness matters to the definition-order check); one recorded finding (un-annotated definition of a term with unsolved holes) is matched by that shape.",
   ref="DESIGN.md section 3, C19"),
}
NOT_YET = {}

def main():
    props = [json.loads(l) for l in open('/verif/properties.jsonl')]
    hooks = subprocess.run(['git','-C','/repo','log','--format=%h %s','--grep=^verif hook'],capture_output=True,text=True).stdout.strip().splitlines()
    m = {
      "version": 1,
      "setup_cmd": "./bin/setup",
      "hooks": {
        "guard": "cargo feature `verif` (declared in /repo/Cargo.toml, off by default)",
        "enable": "the harness crate /verif/harness includes /repo/src/*.rs by #[path] and enables its own feature `verif`, which the included modules see; the CLI binary is built without the feature",
        "baseline_off_cmd": "cd /repo && cargo test --workspace --no-fail-fast --offline",
        "source_commits": [h.split()[0] for h in hooks],
        "add_only": True,
      },
      "engines": [
        {"name": "harness", "path": "/verif/harness", "serves_properties": sorted(CHECKS),
         "kind_free_text": "Rust crate that links gram's modules by path; proptest 1.11 driven over choice sequences, bounded-exhaustive enumerators, reference models (lexer, chart parser, scope resolver, NbE type checker, CBV interpreter, named substitution), 16 worker processes with abort attribution"},
      ],
      "checks": [],
      "not_applicable": [],
      "notes": "Every check: ./check <ID> quick|thorough; replay: ./check <ID> --replay <file>. Exit 0 = held on everything explored, 1 = VIOLATION line printed, 2 = harness error / inconclusive. Known findings: /verif/known_findings.json.",
    }
    for p in props:
        i = p['id']
        if i in CHECKS:
            c = CHECKS[i]
            m["checks"].append({
              "property_id": i,
              "quick_cmd": f"./check {i} quick",
              "thorough_cmd": f"./check {i} thorough",
              "evidence_file": f"/verif/evidence/{i}.json",
              "replay_cmd_template": f"./check {i} --replay {{path}}",
              "engine": "harness",
              "level_claimed": {"category": "exploration", "text": c["text"], "design_ref": c["ref"]},
              "level_note": c["note"],
              "technique": c["technique"],
            })
        else:
            m["not_applicable"].append({"property_id": i, "reason": NOT_YET.get(i, "check not built yet in this revision (planned, see DESIGN.md section 3); not claimed")})
    json.dump(m, open('/verif/MANIFEST.json','w'), indent=1)
    print("wrote MANIFEST.json:", len(m["checks"]), "checks,", len(m["not_applicable"]), "not claimed")
main()
